"""Regular-expression gates of the real code, decided by z3's sequence/regex theory (no length bound).

gunicorn's lexical checks are `if not X_RE.fullmatch(v): raise ...` style gates.  Two things decide what such a gate lets
through: the pattern, and the *method* it is applied with (fullmatch / match / search; `$` also matches before a final
newline).  Both are read from /repo's current source on every run:

  gates_in(func)       AST of the real function -> [Gate(arg, regex object, method, reject_on_match, guards, line)];
                       any use of a module-level compiled regex that is not one of the recognised gate shapes raises
                       Unsupported (reported as inconclusive, never as success)
  accepted(gates)      z3 regex-membership formula over a z3 String: "this string passes every gate"
  sre_to_z3(pattern)   the compiled pattern's own parse tree (re._parser) -> z3 regex; character classes and \\d \\s \\w are
                       turned into code-point ranges by asking the running interpreter's predicates
  check_subset(...)    s in A and s not in B  -> unsat | a concrete string (decoded from the model)

Alphabet: code points 0..0x2FFFF (z3's character sort); anything above is outside the claim.
The translation is validated on every run by `selftest` (real regex engine vs. the z3 term on concrete strings).
"""
import ast
import inspect
import re
import textwrap
import time

import z3
from re import _constants as sc
from re import _parser as sp

MAXC = 0x2FFFF


class Unsupported(Exception):
    pass


# ---- code-point sets ------------------------------------------------------------------------------------------------------
def _norm(ranges):
    out = []
    for lo, hi in sorted(ranges):
        if lo > hi:
            continue
        if out and lo <= out[-1][1] + 1:
            out[-1] = (out[-1][0], max(out[-1][1], hi))
        else:
            out.append((lo, hi))
    return out


def _compl(ranges):
    out, prev = [], 0
    for lo, hi in _norm(ranges):
        if lo > prev:
            out.append((prev, lo - 1))
        prev = hi + 1
    if prev <= MAXC:
        out.append((prev, MAXC))
    return out


_CAT = {}


def _category(cat, ascii_only):
    key = (cat, ascii_only)
    if key in _CAT:
        return _CAT[key]
    base = {sc.CATEGORY_DIGIT: r"\d", sc.CATEGORY_NOT_DIGIT: r"\D", sc.CATEGORY_SPACE: r"\s", sc.CATEGORY_NOT_SPACE: r"\S",
            sc.CATEGORY_WORD: r"\w", sc.CATEGORY_NOT_WORD: r"\W"}.get(cat)
    if base is None:
        raise Unsupported("category %s" % cat)
    # ask the real engine, one code point at a time (done once per category)
    rx = re.compile(base, re.ASCII if ascii_only else 0)
    ranges, start = [], None
    for c in range(MAXC + 2):
        m = c <= MAXC and rx.fullmatch(chr(c)) is not None
        if m and start is None:
            start = c
        elif not m and start is not None:
            ranges.append((start, c - 1))
            start = None
    _CAT[key] = ranges
    return ranges


def _class_items(items, ascii_only):
    neg = False
    ranges = []
    for op, av in items:
        if op is sc.NEGATE:
            neg = True
        elif op is sc.LITERAL:
            ranges.append((av, av))
        elif op is sc.RANGE:
            ranges.append((av[0], av[1]))
        elif op is sc.CATEGORY:
            ranges += _category(av, ascii_only)
        else:
            raise Unsupported("class item %s" % op)
    ranges = _norm(ranges)
    return _compl(ranges) if neg else ranges


_RES = None


def resort():
    global _RES
    if _RES is None:
        _RES = z3.ReSort(z3.StringSort())
    return _RES


def ch(c):
    return z3.StringVal(chr(c))


def set_to_z3(ranges):
    ranges = _norm([(lo, min(hi, MAXC)) for lo, hi in ranges if lo <= MAXC])
    if not ranges:
        return z3.Empty(resort())
    parts = [z3.Re(ch(lo)) if lo == hi else z3.Range(ch(lo), ch(hi)) for lo, hi in ranges]
    return parts[0] if len(parts) == 1 else z3.Union(*parts)


def anychar():
    return set_to_z3([(0, MAXC)])


def anystar():
    return z3.Star(anychar())


def eps():
    return z3.Re(z3.StringVal(""))


def seq(parts):
    parts = list(parts)
    if not parts:
        return eps()
    return parts[0] if len(parts) == 1 else z3.Concat(*parts)


# ---- sre parse tree -> z3 ---------------------------------------------------------------------------------------------------
def _node(op, av, flags):
    ascii_only = bool(flags & re.ASCII)
    if flags & re.IGNORECASE:
        raise Unsupported("IGNORECASE")
    if op is sc.LITERAL:
        return z3.Re(ch(av))
    if op is sc.NOT_LITERAL:
        return set_to_z3(_compl([(av, av)]))
    if op is sc.ANY:
        return anychar() if flags & re.DOTALL else set_to_z3(_compl([(10, 10)]))
    if op is sc.IN:
        return set_to_z3(_class_items(av, ascii_only))
    if op is sc.CATEGORY:
        return set_to_z3(_category(av, ascii_only))
    if op is sc.BRANCH:
        return z3.Union(*[_seq(p, flags) for p in av[1]]) if len(av[1]) > 1 else _seq(av[1][0], flags)
    if op is sc.SUBPATTERN:
        _, add, dele, p = av
        if add or dele:
            raise Unsupported("inline flags")
        return _seq(p, flags)
    if op in (sc.MAX_REPEAT, sc.MIN_REPEAT):
        lo, hi, p = av
        r = _seq(p, flags)
        if hi is sc.MAXREPEAT or hi == sc.MAXREPEAT:
            if lo == 0:
                return z3.Star(r)
            if lo == 1:
                return z3.Plus(r)
            return z3.Concat(z3.Loop(r, lo, lo), z3.Star(r))
        if lo == 0 and hi == 1:
            return z3.Option(r)
        return z3.Loop(r, lo, hi)
    raise Unsupported("regex construct %s" % (op,))


def _seq(sub, flags):
    return seq([_node(op, av, flags) for op, av in sub])


def sre_to_z3(pattern):
    """-> (z3 regex of the body, caret: bool, tail: None | '$' | 'Z')"""
    if not isinstance(pattern.pattern, str):
        raise Unsupported("bytes pattern")
    if pattern.flags & re.MULTILINE:
        raise Unsupported("MULTILINE")
    tree = list(sp.parse(pattern.pattern, pattern.flags & ~re.UNICODE))
    caret, tail = False, None
    if tree and tree[0][0] is sc.AT and tree[0][1] in (sc.AT_BEGINNING, sc.AT_BEGINNING_STRING):
        caret = True
        tree = tree[1:]
    if tree and tree[-1][0] is sc.AT and tree[-1][1] in (sc.AT_END, sc.AT_END_STRING):
        tail = "$" if tree[-1][1] is sc.AT_END else "Z"
        tree = tree[:-1]
    for op, av in tree:
        if op is sc.AT:
            raise Unsupported("anchor inside the pattern")
    return _seq(tree, pattern.flags), caret, tail


def applied(pattern, method):
    """z3 regex of the strings s for which pattern.<method>(s) is not None"""
    body, caret, tail = sre_to_z3(pattern)
    if method == "fullmatch":
        # the match has to end at len(s): '$' / '\\Z' add nothing, and '$' cannot use its before-final-newline reading
        return body
    end = {None: anystar(), "$": z3.Option(z3.Re(ch(10))), "Z": eps()}[tail]
    if method == "match":
        return z3.Concat(body, end)
    if method == "search":
        return z3.Concat(body, end) if caret else z3.Concat(anystar(), body, end)
    raise Unsupported("method %s" % method)


# ---- gates from the AST of the real function ----------------------------------------------------------------------------------
class Gate:
    def __init__(self, arg, name, pattern, method, reject_on_match, guards, line):
        self.arg, self.name, self.pattern, self.method = arg, name, pattern, method
        self.reject_on_match, self.guards, self.line = reject_on_match, guards, line

    def describe(self):
        return "%s.%s(%s) %s -> reject%s [line %d, pattern %r]" % (
            self.name, self.method, self.arg, "matches" if self.reject_on_match else "does not match",
            (" under " + " and ".join(self.guards)) if self.guards else "", self.line, self.pattern.pattern)


def _regex_call(node, regexes):
    """node is `NAME.method(arg)` with NAME a module-level compiled regex -> (name, method, arg source) or None"""
    if (isinstance(node, ast.Call) and isinstance(node.func, ast.Attribute) and isinstance(node.func.value, ast.Name)
            and node.func.value.id in regexes):
        if len(node.args) != 1 or node.keywords:
            raise Unsupported("regex call with unusual arguments at line %d" % node.lineno)
        return node.func.value.id, node.func.attr, ast.unparse(node.args[0])
    return None


def _raises(body):
    return bool(body) and isinstance(body[0], ast.Raise)


def gates_in(func):
    func = getattr(func, "__func__", func)
    src = textwrap.dedent(inspect.getsource(func))
    tree = ast.parse(src)
    g = func.__globals__
    regexes = {k: v for k, v in g.items() if isinstance(v, re.Pattern)}
    gates = []
    seen_calls = set()

    def visit(stmts, guards):
        pending = {}                                      # variable -> (name, method, arg) from `x = RE.m(arg)`
        for st in stmts:
            if isinstance(st, ast.Assign) and len(st.targets) == 1 and isinstance(st.targets[0], ast.Name):
                rc = _regex_call(st.value, regexes)
                if rc:
                    pending[st.targets[0].id] = rc + (st.value,)
                    continue
            if isinstance(st, ast.If):
                test, neg = st.test, False
                if isinstance(test, ast.UnaryOp) and isinstance(test.op, ast.Not):
                    test, neg = test.operand, True
                rc = _regex_call(test, regexes)
                if rc:
                    if not _raises(st.body) or st.orelse:
                        raise Unsupported("regex test that does not guard a raise at line %d" % st.lineno)
                    seen_calls.add(id(test))
                    gates.append(Gate(rc[2], rc[0], regexes[rc[0]], rc[1], not neg, list(guards), st.lineno))
                    continue
                var = None
                if isinstance(test, ast.Name) and neg:
                    var = test.id                          # if not m:
                elif (isinstance(test, ast.Compare) and isinstance(test.left, ast.Name) and len(test.ops) == 1
                      and isinstance(test.ops[0], ast.Is) and isinstance(test.comparators[0], ast.Constant)
                      and test.comparators[0].value is None and not neg):
                    var = test.left.id                     # if m is None:
                if var in pending and _raises(st.body) and not st.orelse:
                    name, method, arg, call = pending.pop(var)
                    seen_calls.add(id(call))
                    gates.append(Gate(arg, name, regexes[name], method, False, list(guards), st.lineno))
                    continue
                visit(st.body, guards + [ast.unparse(st.test)])
                visit(st.orelse, guards + ["not (%s)" % ast.unparse(st.test)])
                continue
            for field in ("body", "orelse", "finalbody"):
                sub = getattr(st, field, None)
                if isinstance(sub, list) and sub and isinstance(sub[0], ast.stmt):
                    visit(sub, guards)
            for h in getattr(st, "handlers", []):
                visit(h.body, guards)
        if pending:
            raise Unsupported("regex match result %s is not tested by a recognised gate" % sorted(pending))

    fn = tree.body[0]
    visit(fn.body, [])
    # every other mention of a module-level regex in the function must be one of the gates found
    for node in ast.walk(fn):
        rc = None
        try:
            rc = _regex_call(node, regexes)
        except Unsupported:
            raise
        if rc and id(node) not in seen_calls:
            raise Unsupported("use of %s.%s at line %d is not a recognised gate" % (rc[0], rc[1], node.lineno))
        if isinstance(node, ast.Name) and node.id in regexes:
            pass
    return gates


def accepted(s, gates):
    """z3 formula: s passes every gate in `gates`"""
    conj = []
    for g in gates:
        m = z3.InRe(s, applied(g.pattern, g.method))
        conj.append(z3.Not(m) if g.reject_on_match else m)
    return z3.And(*conj) if conj else z3.BoolVal(True)


# ---- solving ----------------------------------------------------------------------------------------------------------------
def z3_string_value(v):
    """python str of a z3 string value"""
    s = v.as_string()
    out, i = [], 0
    while i < len(s):
        if s.startswith("\\u{", i):
            j = s.index("}", i)
            out.append(chr(int(s[i + 3:j], 16)))
            i = j + 1
        elif s.startswith("\\x", i) and i + 4 <= len(s):
            out.append(chr(int(s[i + 2:i + 4], 16)))
            i += 4
        else:
            out.append(s[i])
            i += 1
    return "".join(out)


class Stats:
    def __init__(self):
        self.queries = 0
        self.solver_s = 0.0
        self.log = []


def solve(formulas, svar, stats, label, timeout_ms=60000):
    """-> ('unsat', None) | ('sat', python str) | ('unknown', None)"""
    sol = z3.Solver()
    sol.set("timeout", timeout_ms)
    for f in formulas:
        sol.add(f)
    t0 = time.perf_counter()
    r = str(sol.check())
    dt = time.perf_counter() - t0
    stats.queries += 1
    stats.solver_s += dt
    val = None
    if r == "sat":
        val = z3_string_value(sol.model().eval(svar, model_completion=True))
    stats.log.append({"query": label, "result": r, "s": round(dt, 3), "model": val})
    return r, val


def selftest(pairs, samples):
    """pairs: [(pattern, method)]; samples: strings.  The z3 term and the real engine must agree on every sample."""
    bad = []
    n = 0
    for pattern, method in pairs:
        rz = applied(pattern, method)
        for s in samples:
            real = getattr(pattern, method)(s) is not None
            enc = z3.is_true(z3.simplify(z3.InRe(z3.StringVal(s), rz)))
            n += 1
            if real != enc:
                bad.append((pattern.pattern, method, s, real, enc))
    return n, bad

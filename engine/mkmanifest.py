"""Generate /verif/MANIFEST.json from the table below (kept here so it stays valid and in sync)."""
import json
import os

VERIF = os.path.dirname(os.path.dirname(os.path.abspath(__file__)))

TECH = "bounded symbolic execution of the real functions (CrossHair + z3), per-obligation path-tree exhaustion, concrete replay of counterexamples"

TECH_SMT = ("; plus direct z3 queries (sequence/regex theory, no length bound) for the regular-expression gates, whose patterns "
            "and applied methods are read from the current source by AST (engine/regex_smt.py), models replayed through the real functions")

# property id -> (claimed?, level text, level note, design ref)
CHECKS = {}
NOT_APPLICABLE = {}


def claim(pid, text, note, ref):
    CHECKS[pid] = (text, note, ref)


def na(pid, reason):
    NOT_APPLICABLE[pid] = reason


def build():
    checks = []
    for pid in sorted(CHECKS):
        text, note, ref = CHECKS[pid]
        checks.append({
            "property_id": pid,
            "quick_cmd": "bin/check %s --tier quick" % pid,
            "thorough_cmd": "bin/check %s --tier thorough" % pid,
            "evidence_file": "evidence/%s.json" % pid,
            "replay_cmd_template": "bin/check %s --replay {path}" % pid,
            "engine": "crosshair-z3",
            "level_claimed": {"category": "other", "text": text, "design_ref": ref},
            "level_note": note,
            "technique": TECH + (TECH_SMT if pid in ("C01", "C09") else ""),
        })
    m = {
        "version": 1,
        "setup_cmd": "bin/check --setup",
        "hooks": {
            "guard": "GUNICORN_VERIF",
            "enable": "none needed: harnesses swap module attributes (io, os, time, select) of the imported gunicorn "
                      "modules inside the checking process; /repo carries no instrumentation",
            "baseline_off_cmd": "cd /repo && /venv/bin/python -m pytest -ra -q -p no:cacheprovider --timeout=900 "
                                "--continue-on-collection-errors",
            "source_commits": [],
            "add_only": True,
        },
        "engines": [{
            "name": "crosshair-z3", "path": "engine/",
            "serves_properties": sorted(CHECKS),
            "kind_free_text": "CrossHair 0.0.110 symbolic execution of /repo's Python functions with z3 5.1 as the "
                              "solver; engine/ch_ext.py adds symbolic models for bytes.split / int(x,16) / "
                              "str(b,enc) / %-format / `int in bytes`; engine/runner.py case-splits obligations over "
                              "16 cores, replays counterexamples on plain CPython, applies KNOWN_FINDINGS.json",
        }],
        "checks": checks,
        "not_applicable": [{"property_id": p, "reason": r} for p, r in sorted(NOT_APPLICABLE.items())],
        "notes": "Exit codes of bin/check: 0 all obligations discharged; 1 VIOLATION (reproduced counterexample not in "
                 "KNOWN_FINDINGS.json); 2 inconclusive (never reported as success); 3 harness error (non-reproducing "
                 "counterexample, vacuous twin, engine self-test mismatch). All claims are bounded; bounds are listed "
                 "per obligation in the evidence files and in DESIGN.md.",
    }
    return m



claim("C01",
      "For every header-value / chunk-size line / chunk terminator / field line / request-line field / body-boundary "
      "input within the stated byte-length bounds, gunicorn's framing kernels agree with a strict RFC 9112 reference "
      "whenever they accept (solver-exhausted path trees; twins prove the canonical spellings are still accepted). The "
      "regex gates on field names, values, method and version accept only RFC-conforming strings of any length (direct z3).",
      "Bounded (field lengths 2-4 symbolic bytes, <=2 framing headers). Trusted: CrossHair+z3, engine/ch_ext.py "
      "(differentially validated), PyBytesIO shim (validated on all repository fixtures), oracles/rfc9112.py. "
      "Composition of kernels into whole-stream parsing relies on C06.", "4/C01")
claim("C02",
      "For every combination of HTTP version, method, status class, Content-Length, chunk-length sequence and production "
      "mode within the bounds, the bytes Response writes parse as exactly one well-formed response with the right body "
      "under an independent strict reader; keep-alive is announced and honoured only when self-delimiting and not "
      "refused by the client, through the real handle() of sync, gthread and the async base.",
      "Bounded (<=3 chunks of <=2 bytes, CL<=3/5). Body content concrete, lengths/flags symbolic. Stubs: recording "
      "socket, fake file + lseek/fstat, constant clock. gevent/eventlet loops and SSL are outside the claim.", "4/C02")
claim("C03",
      "The real Arbiter.run()/manage_workers/reap_workers/spawn/kill code reaches exactly num_workers live, tracked, "
      "reaped children for every bounded schedule of crashes, TTIN/TTOU and SIGCHLD delivery points chosen by the solver "
      "against a simulated kernel; single steps are checked from arbitrary valid pools.",
      "Bounded (<=3 workers, tapes <=2-3 events, 4-5 quiet loops). Simulated kernel contract in engine/stubs/kernel.py "
      "is assumed. One known finding (timeout=0 + death inside fork()) is excluded by predicate and reported.", "4/C03")

claim("C04",
      "Master: for TERM/INT/QUIT with 0..3 workers whose exit delay (or refusal) is a solver variable, the real "
      "run()/halt()/stop() exit with status 0 in time, signal politely first and KILL only the late ones, close the "
      "listeners, unlink the unix socket only when no other master shares it and remove the pid file. Workers: with "
      "TERM injected at every stub boundary of the real sync and gthread loops, every accepted request is answered in "
      "full and no new connection is accepted.",
      "Bounded schedules (<=3 workers, <=2-3 connections, TERM at one of the first ~10 boundaries). Signals are "
      "delivered at stub boundaries only. gevent/eventlet loops are NOT covered (C event loops cannot be executed "
      "symbolically) - stated as outside the claim. Simulated kernel contract assumed.", "4/C04")
claim("C05",
      "For one representative malformed head per parser exception class (plus garbage and a valid one), cut at every "
      "offset and followed by EOF or ECONNRESET, with the solver choosing whether/when/with which errno the client socket "
      "fails, the real handle() of sync, gthread and the async base never calls the application, writes nothing or "
      "exactly one well-formed 4xx/5xx with Connection: close, closes the connection, and serves the next connection; "
      "Worker.handle_error/util.write_error produce one consistent response or nothing for hostile payloads.",
      "Bounded: concrete representative heads (truncation offset, fault schedule, payload characters are the solver "
      "variables). Parser exception closure for arbitrary bytes is discharged by the C01 obligations. SSL and "
      "gevent/eventlet outside.", "4/C05")
claim("C06",
      "2-safety per kernel: Unreader use, read_line, the header-block scan, parse_chunk_size, a chunked body through "
      "Body.read, parse_trailers and LengthReader through Body.read/readline return the same result, raise the same "
      "exception class and leave the same logical residue for [data] and for data cut at solver-chosen positions, for "
      "all byte contents within the length bound; the real RequestParser gives the same requests / rejection for 9 concrete "
      "streams under every single cut, small double cuts and byte-by-byte feeding.",
      "Bounded: 2-6 symbolic bytes, 1-2 cuts, small symbolic limits/sizes; more pieces follow from the Unreader "
      "obligation by induction (argued, not mechanised). PyBytesIO shim in symbolic runs.", "4/C06")
claim("C07",
      "Every program of <=2 (thorough 3) calls over read/readline/readlines/next with solver-chosen sizes on a body with "
      "symbolic content agrees call by call with a binary-file model, for Content-Length framing with a network cut and "
      "for ChunkedReader.read over any 2-piece layout, then EOF forever; sizes around the 1024-byte refill on concrete "
      "1 KB bodies; after partial consumption the next request starts at the first byte after the body.",
      "Bounded: bodies of 2-4 symbolic bytes (only LF matters to the code), programs of <=3 calls. readlines(hint) may "
      "ignore the hint (PEP 3333).", "4/C07")
claim("C08",
      "Two header names that differ case-insensitively never share an environ variable (drop/refuse); scheme, "
      "SCRIPT_NAME/PATH_INFO and REMOTE_ADDR change only for a peer in the corresponding allow list (matrix of peers x "
      "allow lists x symbolic header value / PROXY line spellings); the PROXY-declared address is seen by every request of "
      "a keep-alive connection through the real gthread and async-base handle().",
      "Bounded: names of <=2 symbolic characters, values = pad+core+pad, concrete address/port spellings; inet_pton is C "
      "code and runs concretely. dangerous header_map is excluded by the property.", "4/C08")
claim("C09",
      "For a symbolic status tail, header name or header value (any unicode code point in every position, within the length "
      "bound) the head on the wire has exactly the server's lines + one per accepted header, every CR followed by LF and "
      "vice versa, no NUL; refused input sends zero bytes; hop-by-hop names in every case spelling are dropped; a second "
      "start_response(exc_info) replaces the stored headers or re-raises. The regex gates of start_response / "
      "process_headers (pattern and applied method read from the source) accept only RFC token / field-value strings, for "
      "strings of any length (direct z3 regex inclusion).",
      "Bounded: one symbolic field at a time, 0-3 characters (the regex-gate obligation has no length bound). The wire bytes are judged structurally by index loops on "
      "the symbolic bytes.", "4/C09")
claim("C10",
      "The real run()->handle_hup->reload()->spawn/manage loop against the simulated kernel with a solver-chosen new "
      "configuration: an unchanged address never closes or re-creates a listener, all new workers are forked before any old "
      "one is signalled, old ones get TERM only, afterwards the pool is exactly the new number of post-reload workers, "
      "tracked and reaped; the pid file follows the configuration.",
      "Master decision logic only; what clients observe reduces to C04's worker-side TERM obligations. Bounded: <=3 old, <=3 "
      "new workers, crash tape <=2, <=2 HUPs.", "4/C10")
claim("C11",
      "murder_workers signals exactly the workers whose heartbeat is older than the timeout (ABRT, then KILL) for symbolic "
      "clocks/ages/timeouts; through the real run() loop a worker that stops heartbeating is aborted within timeout+1.2 s, "
      "killed on the next scan if it ignores that, and replaced, while healthy ones are never signalled; the real sync "
      "(1 and 2 listeners) and gthread loops never leave a heartbeat gap above the timeout for requests shorter than it.",
      "Virtual integer time advanced only inside stubs; processing takes zero time. gevent/eventlet loops and really "
      "blocked processes are outside.", "4/C11")
claim("C12",
      "Limit normalisation equals the documented semantics for all ints in -5..40000 (solver, incl. the buffer formula); "
      "request line, field count and field size are rejected iff over the limit for all small limit/length combinations and "
      "cuts; on endless delimiter-free input read_line, the header scan, parse_chunk_size and parse_trailers reject before "
      "more than bound + one read is buffered.",
      "Bounded small limits (the code is uniform in the limit value). limit 0 = unlimited is excluded from the buffer bound "
      "as documented.", "4/C12")
claim("C13",
      "Inductive steps of accept / dispatch-on-readable / finish_request / murder_keepalived / one run() iteration from "
      "every state of <=3 connections satisfying the representation invariant, with handler completions injected at every "
      "lock release: the invariant (nr_conns = open connections, keep-alive set = registered idle connections ordered by "
      "deadline, in-flight connections nowhere else, no double close) is preserved, connections are closed exactly when "
      "their keep-alive time has passed and never while in flight, a readable connection is dispatched, and nr_conns "
      "never exceeds worker_connections.",
      "Thread switches are modelled at lock releases and stub calls only; bytecode-level races (unlocked `nr_conns -= 1`) "
      "are outside. <=3 connections; the invariant was strengthened (deadline <= now + keepalive) after an unreachable "
      "counterexample.", "4/C13")
claim("C14",
      "stop() unlinks the unix socket iff no other master can be using it (all flag combinations); reexec() is ignored "
      "while an upgrade is pending or on the new master, else the child execs with GUNICORN_PID/GUNICORN_FD (or LISTEN_*) "
      "exactly as required; start() adopts the inherited fds, uses the '.2' pid file and promotes/renames once when the "
      "parent is gone; reap_workers() re-enables USR2; in every history of <=3-5 events over two Arbiter objects the socket "
      "file exists iff a master is alive.",
      "Decision logic only: exec = constructing the second Arbiter from the recorded environment; real execvpe / fd "
      "inheritance / clients during hand-over are outside.", "4/C14")
claim("C15",
      "unquote_to_wsgi_str equals an independent percent-decoder for every latin-1 string within the bound (symbolic); "
      "header lists map to HTTP_*/CONTENT_* with repeated fields comma-joined in order for symbolic values; for targets "
      "built by the solver from 24 representative characters in the origin/absolute/'//'/asterisk forms the real "
      "parse_request_line + wsgi.create give RAW_URI, QUERY_STRING, PATH_INFO, SCRIPT_NAME equal to the reference, or "
      "reject; method and protocol are passed through.",
      "Obligation 3 enumerates representatives (urlsplit's lru_cache hashes its argument, which CrossHair can only "
      "realise); obligations 1-2 are symbolic. '#' and authority-form are outside.", "4/C15")
claim("C16",
      "Through the real Application.load_config / Config.set / validators the effective value of an int, a flag, a string "
      "and a list setting equals validator(value of the most authoritative mentioning source) for every subset of the four "
      "sources with symbolic values, unmentioned settings keep their defaults, an invalid value raises; for every one of "
      "the 72 settings with a CLI option the real add_option yields None when the flag is absent.",
      "argparse's own parsing of argv and importing a real config file are outside (stubbed). One representative setting "
      "per validator kind for the merge order; the per-setting None-default table covers all settings.", "4/C16")
claim("C17",
      "The real Pidfile.create/validate/unlink/rename on a file-system + liveness model: create refuses iff the file names a "
      "live (or EPERM) other pid and takes over stale/garbage/empty files; with a crash before each mutating system call the "
      "path holds the complete old or the complete new content; unlink/rename touch a file only if it contains the "
      "instance's own pid; in all histories of 3-5 operations by two instances nobody removes the other's file or takes the "
      "path from a live owner; two create() calls interleaved at every mutating system call (solver-chosen schedule) never "
      "expose partial content.",
      "FS model (inodes, descriptors): atomic rename, all-or-nothing write, no pid reuse. pids and file states from small enumerated sets.", "4/C17")
claim("C18",
      "Worker.__init__ computes max_requests + randint(0, jitter) (0 = never) for all small values; through the real "
      "handle() of each worker class the worker stays alive exactly until the limit-th request, that request is answered "
      "completely with Connection: close, a keep-alive connection is closed by it, and the real sync accept loop takes "
      "exactly min(k, limit) connections.",
      "Requests are served one after another (in-flight overlap of gthread is C13/C04); gevent/eventlet pools outside.", "4/C18")
claim("C19",
      "Through the real handle() of each worker class with 7 application behaviours x Content-Length x chunk lengths: "
      "exactly one access record when the application call completes, with the wire status and resp.sent = body bytes on "
      "the wire for every production mode incl. sendfile; at most one record for self-rejected requests; the real "
      "Logger.atoms + SafeAtoms + format never render CR or LF for an arbitrary string in any client-influenced source and "
      "for every documented atom.",
      "Logger object without handlers (atoms/SafeAtoms/%-format are the real code). Arbitrary unicode strings of 2-3 "
      "characters per source; the basic-auth user goes through the real base64 path with representative characters.", "4/C19")
claim("C20",
      "Under a POSIX credential model the real set_owner_process leaves real=effective=saved uid and gid equal to the "
      "configured ids and, with initgroups, exactly the user's supplementary groups, for all id combinations; the heartbeat "
      "file and unix socket end up owned by the worker's identity; the child side of the real spawn_worker reaches "
      "init_process and calls set_owner_process(cfg.uid, cfg.gid, cfg.initgroups) before loading the application for "
      "workers created by manage_workers, TTIN, reload and a USR2-started master.",
      "Credential model checked once against the sandbox kernel (root). /proc observation of live processes across "
      "HUP/USR2 histories is outside this technique.", "4/C20")

if __name__ == "__main__":
    m = build()
    with open(os.path.join(VERIF, "MANIFEST.json"), "w") as f:
        json.dump(m, f, indent=1)
    print("MANIFEST.json: %d checks, %d not_applicable" % (len(m["checks"]), len(m["not_applicable"])))

"""Generate /verif/MANIFEST.json from the table below (kept here so it stays valid and in sync)."""
import json
import os

VERIF = os.path.dirname(os.path.dirname(os.path.abspath(__file__)))

TECH = "bounded symbolic execution of the real functions (CrossHair + z3), per-obligation path-tree exhaustion, concrete replay of counterexamples"

# property id -> (claimed?, level text, level note, design ref)
CHECKS = {}
NOT_APPLICABLE = {}


def claim(pid, text, note, ref):
    CHECKS[pid] = (text, note, ref)


def na(pid, reason):
    NOT_APPLICABLE[pid] = reason


def build():
    checks = []
    for pid in sorted(CHECKS):
        text, note, ref = CHECKS[pid]
        checks.append({
            "property_id": pid,
            "quick_cmd": "bin/check %s --tier quick" % pid,
            "thorough_cmd": "bin/check %s --tier thorough" % pid,
            "evidence_file": "evidence/%s.json" % pid,
            "replay_cmd_template": "bin/check %s --replay {path}" % pid,
            "engine": "crosshair-z3",
            "level_claimed": {"category": "other", "text": text, "design_ref": ref},
            "level_note": note,
            "technique": TECH,
        })
    m = {
        "version": 1,
        "setup_cmd": "bin/check --setup",
        "hooks": {
            "guard": "GUNICORN_VERIF",
            "enable": "none needed: harnesses swap module attributes (io, os, time, select) of the imported gunicorn "
                      "modules inside the checking process; /repo carries no instrumentation",
            "baseline_off_cmd": "cd /repo && /venv/bin/python -m pytest -ra -q -p no:cacheprovider --timeout=900 "
                                "--continue-on-collection-errors",
            "source_commits": [],
            "add_only": True,
        },
        "engines": [{
            "name": "crosshair-z3", "path": "engine/",
            "serves_properties": sorted(CHECKS),
            "kind_free_text": "CrossHair 0.0.110 symbolic execution of /repo's Python functions with z3 5.1 as the "
                              "solver; engine/ch_ext.py adds symbolic models for bytes.split / int(x,16) / "
                              "str(b,enc) / %-format / `int in bytes`; engine/runner.py case-splits obligations over "
                              "16 cores, replays counterexamples on plain CPython, applies KNOWN_FINDINGS.json",
        }],
        "checks": checks,
        "not_applicable": [{"property_id": p, "reason": r} for p, r in sorted(NOT_APPLICABLE.items())],
        "notes": "Exit codes of bin/check: 0 all obligations discharged; 1 VIOLATION (reproduced counterexample not in "
                 "KNOWN_FINDINGS.json); 2 inconclusive (never reported as success); 3 harness error (non-reproducing "
                 "counterexample, vacuous twin, engine self-test mismatch). All claims are bounded; bounds are listed "
                 "per obligation in the evidence files and in DESIGN.md.",
    }
    return m


PENDING = "check not yet built in this round (see DESIGN.md section 4 for the plan); listed here so that the manifest never claims more than exists"

claim("C01",
      "For every header-value / chunk-size line / chunk terminator / field line / request-line field / body-boundary "
      "input within the stated byte-length bounds, gunicorn's framing kernels agree with a strict RFC 9112 reference "
      "whenever they accept (solver-exhausted path trees; twins prove the canonical spellings are still accepted).",
      "Bounded (field lengths 2-4 symbolic bytes, <=2 framing headers). Trusted: CrossHair+z3, engine/ch_ext.py "
      "(differentially validated), PyBytesIO shim (validated on all repository fixtures), oracles/rfc9112.py. "
      "Composition of kernels into whole-stream parsing relies on C06.", "4/C01")
claim("C02",
      "For every combination of HTTP version, method, status class, Content-Length, chunk-length sequence and production "
      "mode within the bounds, the bytes Response writes parse as exactly one well-formed response with the right body "
      "under an independent strict reader; keep-alive is announced and honoured only when self-delimiting and not "
      "refused by the client, through the real handle() of sync, gthread and the async base.",
      "Bounded (<=3 chunks of <=2 bytes, CL<=3/5). Body content concrete, lengths/flags symbolic. Stubs: recording "
      "socket, fake file + lseek/fstat, constant clock. gevent/eventlet loops and SSL are outside the claim.", "4/C02")
claim("C03",
      "The real Arbiter.run()/manage_workers/reap_workers/spawn/kill code reaches exactly num_workers live, tracked, "
      "reaped children for every bounded schedule of crashes, TTIN/TTOU and SIGCHLD delivery points chosen by the solver "
      "against a simulated kernel; single steps are checked from arbitrary valid pools.",
      "Bounded (<=3 workers, tapes <=2-3 events, 4-5 quiet loops). Simulated kernel contract in engine/stubs/kernel.py "
      "is assumed. One known finding (timeout=0 + death inside fork()) is excluded by predicate and reported.", "4/C03")

for _p in ["C%02d" % i for i in range(4, 21)]:
    na(_p, PENDING)

if __name__ == "__main__":
    m = build()
    with open(os.path.join(VERIF, "MANIFEST.json"), "w") as f:
        json.dump(m, f, indent=1)
    print("MANIFEST.json: %d checks, %d not_applicable" % (len(m["checks"]), len(m["not_applicable"])))

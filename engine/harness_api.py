"""Shared conventions for harness modules (importable with and without CrossHair).

A harness function
  * takes only literal-representable arguments (int, bool, str, bytes, List/Tuple of those),
  * carries PEP-316 `pre:` lines (bounds/assumptions) and exactly `post: __return__`,
  * returns True iff the property holds on that input (so a concrete replay is just a call),
  * may read the module global CASE (set by the worker / replayer) for its case-split.
An obligation (`Ob`) = harness function x case, with an expected verdict:
  expect="confirm": CrossHair must exhaust the path tree (Confirmed over all paths)
  expect="refute" : reachability twin - CrossHair must produce a witness (guards vacuity)
An obligation with smt="<generator>" is decided by direct z3 queries built from the real code by that generator (used for
regular-language inclusions, which need no length bound); its `fn` is the concrete replay predicate for z3's models.
"""
import json
import os

SYMBOLIC = os.environ.get("VERIF_SYMBOLIC") == "1"
VERIF_ROOT = os.path.dirname(os.path.dirname(os.path.abspath(__file__)))


def setup(shim=False, ext=True):
    """Called at harness-module import.  Only under the symbolic worker does it touch anything."""
    if not SYMBOLIC:
        return
    if ext:
        import engine.ch_ext  # noqa: F401
    if shim:
        from engine import shim as _shim
        _shim.install()


class Ob:
    def __init__(self, id, fn, cases=None, expect="confirm", timeout=120, tiers=("quick", "thorough"),
                 bound="", path_timeout=None, smt=None):
        self.id = id                  # e.g. "C01.te_decision"
        self.fn = fn                  # function name in the harness module
        self.cases = cases if cases is not None else [{}]
        self.expect = expect
        self.timeout = timeout        # per-condition CPU budget (s) for each case
        self.tiers = tiers
        self.bound = bound            # human-readable bound statement for evidence
        self.path_timeout = path_timeout
        # smt: name of a generator function in the harness module that builds direct z3 queries from the real code
        # (engine/regex_smt.py) instead of a CrossHair run; `fn` is then the concrete replay predicate for its models
        self.smt = smt


_KF = None


def known_findings():
    global _KF
    if _KF is None:
        p = os.path.join(VERIF_ROOT, "KNOWN_FINDINGS.json")
        try:
            with open(p) as f:
                _KF = json.load(f)
        except FileNotFoundError:
            _KF = {"findings": [], "fixed": []}
    return _KF


_KF_CODE = {}


def kf_ok(ob_id, **args):
    """True iff the arguments lie OUTSIDE every known-finding region recorded for obligation ob_id.
    Used in `pre:` so the search continues in the rest of the space."""
    for f in known_findings().get("findings", []):
        if f.get("obligation") != ob_id:
            continue
        code = _KF_CODE.get(f["predicate"])
        if code is None:
            code = _KF_CODE[f["predicate"]] = compile(f["predicate"], "<known-finding>", "eval")
        if eval(code, {"any": any, "all": all, "len": len, "ord": ord, "range": range}, dict(args)):
            return False
    return True


def pick(x, lo, hi):
    """Case-split a small symbolic int into its concrete values by comparisons (each branch continues with a
    plain Python int).  Use where the code under test only does arithmetic/slicing with the value: one path per
    value is cheaper than carrying symbolic lengths through byte-string operations."""
    for v in range(lo, hi):
        if x == v:
            return v
    return hi


def untraced():
    """context manager: CrossHair's tracer off under the symbolic worker, nothing under a concrete replay"""
    if SYMBOLIC:
        from crosshair.tracers import NoTracing
        return NoTracing()
    import contextlib
    return contextlib.nullcontext()


class StubGap(BaseException):
    """The code under test used a function of a stubbed module that the stub does not model.  This says nothing about
    the property: the runner reports it as a harness error (exit 3), never as a VIOLATION."""


class NS:
    """attribute namespace standing in for a module (os, time, select, ...) inside one gunicorn module"""

    def __init__(self, _name, **kw):
        self.__dict__["_name"] = _name
        self.__dict__.update(kw)

    def __getattr__(self, attr):
        if attr.startswith("__"):
            raise AttributeError(attr)
        raise StubGap("%s.%s is not modelled by the harness stub" % (self.__dict__["_name"], attr))


def ns(_name, **kw):
    return NS(_name, **kw)

"""Translator validation for the BytesIO shim: every request fixture of the repository's own test
suite (tests/requests/{valid,invalid}) is pushed through the real RequestParser once with io.BytesIO
and once with the pure-Python PyBytesIO, whole and byte-by-byte; the observations (method, uri,
version, headers, body, trailers, exception class) must be identical.  Plain CPython, no CrossHair.
exit 0 = identical, 3 = mismatch (harness error, never a VIOLATION)."""
import glob
import os
import sys
import types

REPO = os.environ.get("VERIF_REPO", "/repo")
sys.path.insert(0, REPO)
sys.path.insert(0, os.path.join(REPO, "tests"))

from gunicorn.config import Config  # noqa: E402
from gunicorn.http.parser import RequestParser  # noqa: E402
from gunicorn.util import split_request_uri  # noqa: E402
from engine import shim  # noqa: E402
import importlib.machinery  # noqa: E402


def load_cfg(pyfile):
    mod = types.ModuleType("__config__")
    mod.uri = lambda data: {"raw": data, "parts": split_request_uri(data)}
    mod.cfg = Config()
    importlib.machinery.SourceFileLoader("__config__", pyfile).exec_module(mod)
    return mod.cfg


def load_data(fname):
    with open(fname, "rb") as f:
        d = f.read()
    d = d.replace(b"\n", b"").replace(b"\\r\\n", b"\r\n")
    return d.replace(b"\\0", b"\000").replace(b"\\n", b"\n").replace(b"\\t", b"\t")


def observe(cfg, chunks):
    out = []
    try:
        for req in RequestParser(cfg, iter(chunks), None):
            body = req.body.read()
            out.append((req.method, req.uri, req.version, tuple(req.headers), body, tuple(req.trailers)))
    except Exception as e:
        out.append(("EXC", type(e).__name__))
    return out


def api_diff(rounds=20000, seed=4):
    """random operation sequences on io.BytesIO vs PyBytesIO (incl. BytesIO(initial), whose position starts at 0)"""
    import io
    import random
    rnd = random.Random(seed)
    bad = 0
    for _ in range(rounds):
        init = bytes(rnd.choice(b"ab") for _ in range(rnd.randint(0, 3)))
        a, b = io.BytesIO(init), shim.PyBytesIO(init)
        for _ in range(rnd.randint(0, 5)):
            op = rnd.choice(["w", "w", "end", "tell", "get", "seek0"])
            if op == "w":
                d = bytes(rnd.choice(b"xy") for _ in range(rnd.randint(0, 3)))
                ra, rb = a.write(d), b.write(d)
            elif op == "end":
                ra, rb = a.seek(0, os.SEEK_END), b.seek(0, os.SEEK_END)
            elif op == "tell":
                ra, rb = a.tell(), b.tell()
            elif op == "seek0":
                ra, rb = a.seek(0), b.seek(0)
            else:
                ra, rb = a.getvalue(), b.getvalue()
            if ra != rb:
                bad += 1
                break
        if a.getvalue() != b.getvalue() or a.tell() != b.tell():
            bad += 1
    return rounds, bad


def main():
    rounds, apibad = api_diff()
    print("shim API differential: %d random operation sequences vs io.BytesIO, %d mismatches" % (rounds, apibad))
    if apibad:
        sys.exit(3)
    files = sorted(glob.glob(os.path.join(REPO, "tests/requests/valid/*.http")) +
                   glob.glob(os.path.join(REPO, "tests/requests/invalid/*.http")))
    n = bad = 0
    for f in files:
        cfg = load_cfg(f[:-5] + ".py")
        data = load_data(f)
        for seg in ([data], [bytes([b]) for b in data]):
            shim.uninstall()
            a = observe(cfg, seg)
            shim.install()
            b = observe(cfg, seg)
            shim.uninstall()
            n += 1
            if a != b:
                bad += 1
                print("MISMATCH", f, a, b)
    print("shim validation: %d fixture runs (%d files x whole/bytewise), %d mismatches" % (n, len(files), bad))
    sys.exit(3 if bad or not n else 0)


if __name__ == "__main__":
    main()

"""Obligation runner: expands a property's obligations into (function, case) jobs, runs each under
CrossHair in its own process on all cores, replays every counterexample concretely, applies the
known-findings file, writes /verif/evidence/<ID>.json and sets the exit code.

exit 0  every obligation discharged (confirm -> Confirmed over all paths; twin -> witness replayed)
exit 1  a reproduced counterexample not listed in KNOWN_FINDINGS.json  (VIOLATION line printed)
exit 2  inconclusive (timeout / unknown / unreachable precondition) - never reported as success
exit 3  harness error (non-reproducing counterexample, vacuous twin, engine self-test mismatch, ...)
"""
import argparse
import concurrent.futures
import hashlib
import importlib
import inspect
import json
import os
import subprocess
import sys
import time

VERIF = os.path.dirname(os.path.dirname(os.path.abspath(__file__)))
REPO = os.environ.get("VERIF_REPO", "/repo")
PY_SYM = os.path.join(VERIF, ".venv", "bin", "python")
PY_PLAIN = "/venv/bin/python"
EVID = os.path.join(VERIF, "evidence")
REPLAYS = os.path.join(EVID, "replays")


def env_for(symbolic):
    env = dict(os.environ)
    env["PYTHONPATH"] = REPO + os.pathsep + VERIF
    env["PYTHONHASHSEED"] = "0"
    env["PYTHONDONTWRITEBYTECODE"] = "1"
    if symbolic:
        env["VERIF_SYMBOLIC"] = "1"
    else:
        env.pop("VERIF_SYMBOLIC", None)
    return env


import threading
STOP = threading.Event()
FAILFAST = os.environ.get("VERIF_FAILFAST") == "1"      # seed evaluation only: stop queueing work after the first counterexample


def run_worker(job):
    ob, case = job["ob"], job["case"]
    if STOP.is_set():
        return job, {"status": "skipped"}
    cmd = [PY_SYM, os.path.join(VERIF, "engine", "worker.py"), job["module"], ob.fn,
           json.dumps(case), str(job["timeout"]), str(ob.path_timeout or ""), getattr(ob, "smt", None) or ""]
    t0 = time.time()
    try:
        p = subprocess.run(cmd, env=env_for(True), cwd=VERIF, capture_output=True, text=True,
                           timeout=job["timeout"] * 2 + 120)
        out = p.stdout
        i = out.rfind("@@RESULT@@")
        if i < 0:
            res = {"status": "error", "error": "no result line; rc=%s\n%s\n%s" % (
                p.returncode, out[-1500:], p.stderr[-2500:])}
        else:
            res = json.loads(out[i + len("@@RESULT@@"):].splitlines()[0])
    except subprocess.TimeoutExpired:
        res = {"status": "unknown", "error": "worker wall-clock timeout"}
    res["job_wall_s"] = round(time.time() - t0, 3)
    return job, res


def replay_concrete(spec_path):
    p = subprocess.run([PY_PLAIN, os.path.join(VERIF, "engine", "replay.py"), spec_path],
                       env=env_for(False), cwd=VERIF, capture_output=True, text=True, timeout=600)
    i = p.stdout.rfind("@@REPLAY@@")
    if i < 0:
        return {"pre": False, "result": "error", "error": (p.stdout + p.stderr)[-3000:]}
    return json.loads(p.stdout[i + len("@@REPLAY@@"):].splitlines()[0])


def write_replay(pid, module, fn, case, args, tag, ignore_known=False):
    os.makedirs(REPLAYS, exist_ok=True)
    spec = {"property": pid, "module": module, "fn": fn, "case": case, "args": args}
    if ignore_known:
        spec["ignore_known"] = True
    h = hashlib.sha256(json.dumps(spec, sort_keys=True).encode()).hexdigest()[:12]
    path = os.path.join(REPLAYS, "%s-%s-%s.json" % (pid, tag, h))
    with open(path, "w") as f:
        json.dump(spec, f, indent=1, sort_keys=True)
    return path


def kernel_hashes(kernels):
    """sha256 of the current source of every real function the harness executes symbolically."""
    sys.path.insert(0, REPO)
    out = []
    for k in kernels:
        modname, qual = k.split(":")
        try:
            obj = importlib.import_module(modname)
            for part in qual.split("."):
                obj = getattr(obj, part)
            obj = getattr(obj, "fget", obj)
            obj = getattr(obj, "__func__", obj)
            src = inspect.getsource(obj)
            out.append({"function": k, "file": inspect.getsourcefile(obj),
                        "sha256": hashlib.sha256(src.encode()).hexdigest()[:16],
                        "lines": len(src.splitlines())})
        except Exception as e:
            out.append({"function": k, "error": repr(e)})
    return out


def main():
    ap = argparse.ArgumentParser()
    ap.add_argument("pid")
    ap.add_argument("--tier", default=os.environ.get("VERIF_TIER") or "quick")
    ap.add_argument("--replay")
    ap.add_argument("--jobs", type=int, default=int(os.environ.get("VERIF_JOBS", "0")) or (os.cpu_count() or 4))
    ap.add_argument("--only", default="")
    ap.add_argument("--no-evidence", action="store_true")
    a = ap.parse_args()
    pid = a.pid.upper()
    tier = a.tier if a.tier in ("quick", "thorough") else "quick"
    try:
        seed = int(os.environ.get("VERIF_SEED", "0"))
    except ValueError:
        seed = 0

    if a.replay:
        r = replay_concrete(a.replay)
        print(json.dumps(r, indent=1))
        bad = r.get("pre") and r.get("result") in (False, "exception")
        if bad:
            print("VIOLATION property=%s replay=%s" % (pid, a.replay))
        sys.exit(1 if bad else 0)

    t_start = time.time()
    sys.path.insert(0, VERIF)
    sys.path.insert(0, REPO)
    modname = "harness.%s" % pid.lower()
    mod = importlib.import_module(modname)
    from engine.harness_api import known_findings

    harness_errors, inconclusive, violations, known_lines = [], [], [], []

    # 0. engine self-test (differential validation of the CrossHair extension; of the shim if used)
    st = subprocess.run([PY_SYM, os.path.join(VERIF, "engine", "ch_ext.py")], env=env_for(True),
                        cwd=VERIF, capture_output=True, text=True)
    selftest_line = (st.stdout.strip().splitlines() or ["?"])[0]
    if st.returncode != 0:
        harness_errors.append("engine extension self-test failed: " + st.stdout[-800:] + st.stderr[-800:])
    shim_line = None
    if getattr(mod, "USES_SHIM", False):
        sv = subprocess.run([PY_SYM, os.path.join(VERIF, "engine", "validate_shim.py")], env=env_for(False),
                            cwd=VERIF, capture_output=True, text=True)
        shim_line = (sv.stdout.strip().splitlines() or ["?"])[-1]
        if sv.returncode != 0:
            harness_errors.append("BytesIO shim validation failed: " + sv.stdout[-800:] + sv.stderr[-800:])

    # 1. expand jobs
    jobs = []
    for ob in mod.OBLIGATIONS:
        if tier not in ob.tiers:
            continue
        if a.only and a.only not in ob.id:
            continue
        cases = ob.cases[tier] if isinstance(ob.cases, dict) else ob.cases
        for case in cases:
            tmo = ob.timeout[tier] if isinstance(ob.timeout, dict) else ob.timeout
            jobs.append({"module": modname, "ob": ob, "case": case, "timeout": tmo})
    jobs.sort(key=lambda j: -j["timeout"])

    # 2. known findings: replay recorded witnesses first
    kf = known_findings()
    for f in kf.get("findings", []):
        if f.get("property") != pid:
            continue
        w = f["witness"]
        path = write_replay(pid, w["module"], w["fn"], w.get("case") or {}, w["args"], "known", ignore_known=True)
        r = replay_concrete(path)
        if r.get("pre") and r.get("result") in (False, "exception"):
            known_lines.append("KNOWN-FINDING: property=%s %s" % (pid, f["what"]))
        else:
            known_lines.append("note: known finding no longer reproduces (%s): %s" % (f["obligation"], r))

    # 3. run
    results = []
    with concurrent.futures.ThreadPoolExecutor(max_workers=a.jobs) as ex:
        futs = [ex.submit(run_worker, j) for j in jobs]
        for fu in concurrent.futures.as_completed(futs):
            job, res = fu.result()
            results.append((job, res))
            if FAILFAST and res.get("status") == "refuted" and res.get("ce_args") and job["ob"].expect == "confirm":
                STOP.set()
            if os.environ.get("VERIF_VERBOSE"):
                print("  . %-28s %-9s paths=%-5s cpu=%-7s %s" % (job["ob"].id, res.get("status"), res.get("paths"),
                      res.get("cpu_s"), json.dumps(job["case"], sort_keys=True)), flush=True)

    # 4. judge
    ob_records = []
    samples = []
    total_paths = total_solver = 0
    total_solver_s = 0.0
    discharged = 0
    nontrivial = 0
    for job, res in results:
        ob, case = job["ob"], job["case"]
        st_ = res.get("status")
        rec = {"obligation": ob.id, "fn": ob.fn, "case": case, "expect": ob.expect, "bound": ob.bound,
               "engine": "z3-direct" if getattr(ob, "smt", None) else "crosshair", "crosshair": st_, "paths": res.get("paths", 0), "confirmed_paths": res.get("confirmed_paths", 0),
               "solver_queries": res.get("solver_calls", 0), "solver_s": res.get("solver_s", 0.0),
               "solver_unknown": res.get("solver_unknown", 0), "cpu_s": res.get("cpu_s"),
               "wall_s": res.get("job_wall_s"), "budget_s": job["timeout"]}
        total_paths += rec["paths"]
        total_solver += rec["solver_queries"]
        total_solver_s += rec["solver_s"]
        label = "%s %s" % (ob.id, json.dumps(case, sort_keys=True))
        if st_ == "skipped":
            rec["verdict"] = "skipped (fail-fast after a counterexample)"
        elif st_ == "error":
            rec["verdict"] = "harness-error"
            harness_errors.append("%s: worker error: %s" % (label, res.get("error", "")[-1500:]))
        elif st_ in ("unknown", "pre_unsat"):
            rec["verdict"] = "inconclusive"
            if ob.expect == "refute":
                harness_errors.append("%s: twin produced no witness (%s): obligation may be vacuous" % (label, st_))
            else:
                inconclusive.append("%s: %s after %s paths (%s)" % (label, st_, rec["paths"], res.get("error", "")))
        elif st_ == "confirmed":
            if ob.expect == "refute":
                rec["verdict"] = "vacuous-twin"
                harness_errors.append("%s: twin was CONFIRMED - interesting region unreachable" % label)
            else:
                rec["verdict"] = "discharged"
                discharged += 1
        elif st_ == "refuted":
            msg = (res.get("messages") or [{}])[0]
            rec["message"] = msg.get("message")
            args = res.get("ce_args")
            if not args:
                rec["verdict"] = "harness-error"
                harness_errors.append("%s: counterexample without arguments: %s" % (label, msg))
            else:
                tag = "twin" if ob.expect == "refute" else "cex"
                path = write_replay(pid, job["module"], ob.fn, case, args, tag)
                r = replay_concrete(path)
                rec["replay"] = {"path": path, "outcome": r}
                reproduced = r.get("pre") and r.get("result") in (False, "exception")
                if r.get("result") in ("harness-bug", "stubgap"):
                    rec["verdict"] = "harness-error"
                    harness_errors.append("%s: %s while replaying: %s" % (label, r.get("result"), (r.get("exception") or "")[-600:]))
                elif ob.expect == "refute":
                    if reproduced:
                        rec["verdict"] = "witness"
                        discharged += 1
                        nontrivial += 1
                        samples.append({"obligation": ob.id, "kind": "reachability witness (twin)",
                                        "case": case, "args": args})
                    else:
                        rec["verdict"] = "harness-error"
                        harness_errors.append("%s: twin witness does not replay concretely: %s" % (label, r))
                else:
                    if reproduced:
                        rec["verdict"] = "violation"
                        violations.append((label, path, msg.get("message")))
                    else:
                        rec["verdict"] = "harness-error"
                        harness_errors.append("%s: counterexample does NOT reproduce concretely (encoding/stub bug): %s %s"
                                              % (label, msg.get("message"), r))
        ob_records.append(rec)

    # confirmed obligations also give samples (what a discharged obligation looks like)
    for rec in ob_records:
        if rec["verdict"] == "discharged" and len(samples) < 40:
            samples.append({"obligation": rec["obligation"], "kind": "confirmed over all paths",
                            "case": rec["case"], "paths": rec["paths"], "bound": rec["bound"]})
    n_confirm_nontrivial = sum(1 for r in ob_records if r["verdict"] == "discharged" and r["confirmed_paths"] >= 2)

    wall = time.time() - t_start
    for line in known_lines:
        print(line)
    for label, path, m in violations:
        print("counterexample: %s :: %s" % (label, m))
        print("VIOLATION property=%s replay=%s" % (pid, path))
    for m in inconclusive:
        print("INCONCLUSIVE " + m)
    for m in harness_errors:
        print("HARNESS-ERROR " + m)

    rc = 1 if violations else 3 if harness_errors else 2 if inconclusive else 0
    evidence = {
        "property_id": pid, "tier": tier, "seed": seed, "level": "other",
        "coverage": {
            "explanation": (
                "Bounded symbolic execution (CrossHair 0.0.110 + z3) of the real gunicorn functions imported from "
                "%s. Each obligation is a harness function whose arguments are solver variables within the "
                "stated bound; 'discharged' means CrossHair exhausted the path tree (Confirmed over all paths), "
                "or - for a reachability twin - produced a witness that replays concretely. Obligations marked "
                "engine=z3-direct are regular-language inclusions between the regex gates read from the current source "
                "(pattern + applied method, via AST) and the RFC grammar, decided by z3's sequence theory with no "
                "length bound. Nothing outside the bounds listed per obligation is claimed." % REPO),
            "obligations": len(ob_records), "discharged": discharged,
            "evaluations": max(total_paths, 1),
            "distinct_nontrivial": n_confirm_nontrivial + nontrivial,
            "rule": "evaluations = symbolic paths explored by CrossHair over all obligations; distinct_nontrivial = "
                    "confirmed obligations with >=2 confirmed paths + twins whose witness replayed concretely",
            "samples": samples[:40] or [{"note": "no obligation completed"}],
            "solver_queries": total_solver, "solver_s": round(total_solver_s, 2),
            "functions_encoded": kernel_hashes(getattr(mod, "KERNELS", [])),
            "obligation_results": ob_records,
            "engine_selftest": selftest_line, "shim_validation": shim_line,
            "stubs": getattr(mod, "STUBS", []), "outside_the_claim": getattr(mod, "OUTSIDE", []),
            "known_findings_reported": [k for k in known_lines if k.startswith("KNOWN")],
            "inconclusive": inconclusive, "harness_errors": harness_errors,
            "exhaustive": False,
            "trusted_base": ["crosshair-tool 0.0.110", "z3-solver 5.1.0", "engine/ch_ext.py", "engine/shim.py", "engine/regex_smt.py",
                             "stubs and oracles under /verif"],
            "checker_cmd": "bin/check %s --tier %s" % (pid, tier),
        },
        "assumptions": getattr(mod, "ASSUMPTIONS", []),
        "wall_s": round(wall, 2), "violations": len(violations), "exit_code": rc,
    }
    if not a.no_evidence and not a.only:
        os.makedirs(EVID, exist_ok=True)
        with open(os.path.join(EVID, "%s.json" % pid), "w") as f:
            json.dump(evidence, f, indent=1)
        if tier == "thorough":
            # keep the last thorough run next to the quick one (quick runs rewrite <ID>.json)
            with open(os.path.join(EVID, "%s.thorough.json" % pid), "w") as f:
                json.dump(evidence, f, indent=1)
    print("%s tier=%s obligations=%d discharged=%d paths=%d solver_queries=%d solver_s=%.1f wall=%.1fs exit=%d"
          % (pid, tier, len(ob_records), discharged, total_paths, total_solver, total_solver_s, wall, rc))
    sys.exit(rc)


if __name__ == "__main__":
    main()

#!/bin/bash
# Idempotent, offline bootstrap of the overlay venv used by every check.
# /verif/.venv = venv from /venv/bin/python + .pth to /venv's site-packages (gunicorn's deps)
# + crosshair-tool / z3-solver from the offline wheelhouse.
set -e
VERIF="$(cd "$(dirname "${BASH_SOURCE[0]}")/.." && pwd)"
VENV="$VERIF/.venv"
WHEELS=/opt/veriftools/wheels
STAMP="$VENV/.verif-ok"
[ -f "$STAMP" ] && exit 0
mkdir -p "$VERIF/.work"
exec 9>"$VERIF/.work/bootstrap.lock"
flock 9
[ -f "$STAMP" ] && exit 0
rm -rf "$VENV"
/venv/bin/python -m venv "$VENV" >&2
SP="$("$VENV/bin/python" -c 'import sysconfig;print(sysconfig.get_paths()["purelib"])')"
echo "import site; site.addsitedir('/venv/lib/python3.12/site-packages')" > "$SP/verif_overlay.pth"
PIP_NO_INDEX=1 "$VENV/bin/pip" install -q --no-index --find-links "$WHEELS" crosshair-tool >&2
"$VENV/bin/python" -c 'import crosshair, z3; print("crosshair ok", z3.get_version_string())' >&2
touch "$STAMP"

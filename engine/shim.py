"""Pure-Python stand-in for io.BytesIO (append-only use as in gunicorn.http).

CrossHair realises a symbolic bytes value when it crosses the C buffer protocol in
io.BytesIO.write().  While a harness is executed *symbolically* the module attribute `io` of
gunicorn.http.{message,body,unreader} is swapped for a namespace whose BytesIO is this class.
/repo is not edited, and concrete replays never use the shim.
"""
import io as _io
import os
import types


class PyBytesIO:
    def __init__(self, initial=b""):
        self._parts = [initial] if len(initial) else []
        self._len = len(initial)

    def write(self, data):
        n = len(data)
        if n:
            self._parts.append(data)
            self._len += n
        return n

    def getvalue(self):
        if not self._parts:
            return b""
        if len(self._parts) > 1:
            acc = self._parts[0]
            for p in self._parts[1:]:
                acc = acc + p
            self._parts = [acc]
        return self._parts[0]

    def tell(self):
        return self._len

    def seek(self, off, whence=0):
        if not (off == 0 and whence == os.SEEK_END):
            raise NotImplementedError("PyBytesIO only supports seek(0, SEEK_END)")
        return self._len


_installed = False


def install():
    global _installed
    if _installed:
        return
    ns = types.SimpleNamespace(**{k: getattr(_io, k) for k in dir(_io) if not k.startswith("__")})
    ns.BytesIO = PyBytesIO
    import gunicorn.http.message as m
    import gunicorn.http.body as b
    import gunicorn.http.unreader as u
    m.io = ns
    b.io = ns
    u.io = ns
    _installed = True


def uninstall():
    global _installed
    import gunicorn.http.message as m
    import gunicorn.http.body as b
    import gunicorn.http.unreader as u
    m.io = _io
    b.io = _io
    u.io = _io
    _installed = False

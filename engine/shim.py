"""Pure-Python stand-in for io.BytesIO (append-only use as in gunicorn.http).

CrossHair realises a symbolic bytes value when it crosses the C buffer protocol in
io.BytesIO.write().  While a harness is executed *symbolically* the module attribute `io` of
gunicorn.http.{message,body,unreader} is swapped for a namespace whose BytesIO is this class.
/repo is not edited, and concrete replays never use the shim.
"""
import io as _io
import os
import types


class PyBytesIO:
    """io.BytesIO semantics for the operations gunicorn.http uses: a byte buffer with a *position*.
    BytesIO(initial) starts at position 0 (a following write overwrites!); write() at the end appends;
    tell(); seek(0, SEEK_END); getvalue().  Appends are kept as a list of parts so that symbolic byte strings are
    only concatenated when the value is asked for."""

    def __init__(self, initial=b""):
        self._parts = [initial] if len(initial) else []
        self._len = len(initial)
        self._pos = 0

    def _flat(self):
        if not self._parts:
            return b""
        if len(self._parts) > 1:
            acc = self._parts[0]
            for p in self._parts[1:]:
                acc = acc + p
            self._parts = [acc]
        return self._parts[0]

    def write(self, data):
        n = len(data)
        if not n:
            return 0
        if self._pos == self._len:
            self._parts.append(data)
            self._len += n
        else:
            cur = self._flat()
            new = cur[:self._pos] + data + cur[self._pos + n:]
            self._parts = [new]
            self._len = len(new)
        self._pos += n
        return n

    def getvalue(self):
        return self._flat()

    def tell(self):
        return self._pos

    def seek(self, off, whence=0):
        if whence == os.SEEK_END and off == 0:
            self._pos = self._len
        elif whence == 0 and 0 <= off <= self._len:
            self._pos = off
        else:
            raise NotImplementedError("PyBytesIO.seek(%r, %r)" % (off, whence))
        return self._pos


_installed = False


def install():
    global _installed
    if _installed:
        return
    ns = types.SimpleNamespace(**{k: getattr(_io, k) for k in dir(_io) if not k.startswith("__")})
    ns.BytesIO = PyBytesIO
    import gunicorn.http.message as m
    import gunicorn.http.body as b
    import gunicorn.http.unreader as u
    m.io = ns
    b.io = ns
    u.io = ns
    _installed = True


def uninstall():
    global _installed
    import gunicorn.http.message as m
    import gunicorn.http.body as b
    import gunicorn.http.unreader as u
    m.io = _io
    b.io = _io
    u.io = _io
    _installed = False

"""Recording socket + minimal worker scaffolding shared by the worker-level harnesses
(C02, C04, C05, C08, C18, C19).  Everything here is an *environment stub*; the worker, parser,
wsgi and response code executed is gunicorn's own from /repo."""
import errno


WAIT = "WAIT"
STALL = "STALL"


class Stall(BaseException):
    """keep-alive timeout fired while waiting for the next request (gevent.Timeout / eventlet.Timeout stand-in)"""


class RecSock:
    """Client socket: `script` = list of items consumed by recv():
         bytes -> returned;  int -> raises OSError(errno=int);  (exhausted) -> b"" (EOF)
         WAIT  -> "no data has arrived yet": a blocking socket waits (the item is skipped), a non-blocking one raises
                  BlockingIOError(EAGAIN)
         STALL -> the client sends nothing more for longer than the keep-alive timeout: raises Stall (what gevent /
                  eventlet raise inside timeout_ctx(); see workers._Async.timeout_ctx)
       send_fail = index of the sendall()/send() call that raises OSError(send_errno), or None.
       blocking_at_send records the blocking mode in force at every successful send.
       shutdown_errno: shutdown() raises OSError(errno) (peer already reset the connection); close() is unaffected."""

    def __init__(self, script=(), send_fail=None, send_errno=errno.EPIPE, name=("127.0.0.1", 8000), shutdown_errno=None):
        self.script = list(script)
        self.out = []
        self.events = []
        self.closed = 0
        self.shutdowns = 0
        self.nsend = 0
        self.send_fail = send_fail
        self.send_errno = send_errno
        self.recv_after_send = 0
        self.name = name
        self.blocking = None
        self.blocking_at_send = []
        self.hooks = {}          # event name -> callable, used to inject signals at stub boundaries
        self.shutdown_errno = shutdown_errno   # the peer is already gone: shutdown() fails (ENOTCONN), close() still works

    def _hook(self, ev):
        h = self.hooks.get(ev)
        if h:
            h(self)

    def recv(self, n):
        self._hook("recv")
        self.events.append("recv")
        if self.out:
            self.recv_after_send += 1
        while True:
            if not self.script:
                return b""
            item = self.script.pop(0)
            if item == WAIT:
                if self.blocking is False or self.blocking == 0:
                    raise BlockingIOError(errno.EAGAIN, "Resource temporarily unavailable")
                continue
            if item == STALL:
                raise Stall()
            if isinstance(item, int):
                raise OSError(item, "recv failed")
            return item

    def _send(self, d):
        self._hook("send")
        if self.closed:
            raise OSError(errno.EBADF, "send on closed socket")
        k = self.nsend
        self.nsend += 1
        if self.send_fail is not None and k >= self.send_fail:
            raise OSError(self.send_errno, "send failed")
        self.out.append(bytes(d))
        self.blocking_at_send.append(self.blocking)
        self.events.append("send")

    def sendall(self, d):
        self._send(d)

    def send(self, d):
        self._send(d)
        return len(d)

    def sendfile(self, f, offset=0, count=None):
        data = f.getvalue()[offset:]
        if count is not None:
            data = data[:count]
        self._send(data)
        return len(data)

    def close(self):
        self.closed += 1
        self.events.append("close")

    def shutdown(self, how):
        self.shutdowns += 1
        self.events.append("shutdown")
        if self.shutdown_errno is not None:
            raise OSError(self.shutdown_errno, "shutdown failed")

    def setblocking(self, f):
        self.blocking = f

    def gettimeout(self):
        return None

    def getsockname(self):
        return self.name

    def fileno(self):
        return 7

    def wire(self):
        return b"".join(self.out)


class FakeFile:
    """file-like with a fileno(): takes Response.sendfile's fast path (os.lseek/fstat stubbed)"""

    def __init__(self, data, pos=0, with_fileno=True):
        self.data = data
        self.pos = pos
        self.closed = 0
        if with_fileno:
            self.fileno = lambda: 99

    def getvalue(self):
        return self.data

    def read(self, n=-1):
        if n is None or n < 0:
            n = len(self.data)
        d = self.data[self.pos:self.pos + n]
        self.pos += len(d)
        return d

    def close(self):
        self.closed += 1


class CountLog:
    """logger stub: counts access() calls and keeps their (status, sent) pairs.
    With render=True every access() call also runs the REAL Logger.atoms() and formats the default access_log_format through
    SafeAtoms exactly where Logger.access() does (atoms() unguarded, formatting inside try/except): an exception in atoms()
    propagates into the worker as it would with access logging switched on."""

    FORMAT = '%(h)s %(l)s %(u)s %(t)s "%(r)s" %(s)s %(b)s "%(f)s" "%(a)s" %(U)s %(q)s %(M)s'

    def __init__(self, render=False):
        self.access_calls = []
        self.access_reqs = []
        self.errors = 0
        self.render = render
        self.lines = []

    def access(self, resp, req, environ, request_time):
        self.access_calls.append((resp.status, resp.sent, getattr(resp, "response_length", None)))
        self.access_reqs.append(req)
        if self.render:
            from types import SimpleNamespace
            from gunicorn import glogging as GL
            lg = object.__new__(GL.Logger)
            lg.cfg = SimpleNamespace()
            lg.debug = lambda *a, **k: None
            safe = GL.SafeAtoms(lg.atoms(resp, req, environ, request_time))
            try:
                self.lines.append(self.FORMAT % safe)
            except Exception:
                self.errors += 1

    def exception(self, *a, **k):
        self.errors += 1

    def __getattr__(self, n):
        return lambda *a, **k: None

"""POSIX credential model for gunicorn.util.set_owner_process (os.getuid/getgid/setuid/setgid/initgroups, pwd.getpwuid).

Contract (Linux, checked once against the sandbox kernel - see DESIGN.md): a process with effective uid 0 may set
anything; setgid(g) then sets real, effective and saved gid; setuid(u) sets real, effective and saved uid and thereby
drops the privilege; initgroups(name, g) replaces ONLY the supplementary group list (groups of `name` plus g) and leaves
the real/effective/saved gid alone; without privilege each of them fails with EPERM unless it is a no-op."""
import errno
import types

from engine.harness_api import ns


class Cred:
    def __init__(self, uid=0, gid=0, groups=(0,), users=None):
        self.ruid = self.euid = self.suid = uid
        self.rgid = self.egid = self.sgid = gid
        self.groups = set(groups)
        self.users = users or {}        # uid -> (name, [supplementary gids])
        self.calls = []

    def getuid(self):
        return self.ruid

    def geteuid(self):
        return self.euid

    def getgid(self):
        return self.rgid

    def getegid(self):
        return self.egid

    def setgid(self, g):
        self.calls.append(("setgid", g))
        if self.euid == 0:
            self.rgid = self.egid = self.sgid = g
        elif g in (self.rgid, self.sgid):
            self.egid = g
        else:
            raise OSError(errno.EPERM, "Operation not permitted")

    def setuid(self, u):
        self.calls.append(("setuid", u))
        if self.euid == 0:
            self.ruid = self.euid = self.suid = u
        elif u in (self.ruid, self.suid):
            self.euid = u
        else:
            raise OSError(errno.EPERM, "Operation not permitted")

    def initgroups(self, name, g):
        self.calls.append(("initgroups", name, g))
        if self.euid != 0:
            raise OSError(errno.EPERM, "Operation not permitted")
        if not isinstance(name, str):
            raise TypeError("initgroups() argument 1 must be str")
        gs = None
        for uid, (n, groups) in self.users.items():
            if n == name:
                gs = groups
        self.groups = set(gs or []) | {g}

    def getpwuid(self, uid):
        if uid not in self.users:
            raise KeyError("getpwuid(): uid not found: %s" % uid)
        return types.SimpleNamespace(pw_name=self.users[uid][0])


def _gap(name):
    def f(*a, **k):
        from engine.harness_api import StubGap
        raise StubGap("os.%s is not modelled by the credential stub" % name)
    return f


def install(util_mod, cred):
    saved = (util_mod.os, util_mod.pwd)
    real_os = saved[0]
    fake = types.SimpleNamespace(**{k: getattr(real_os, k) for k in dir(real_os) if not k.startswith("__")})
    fake.getuid, fake.geteuid, fake.getgid, fake.getegid = cred.getuid, cred.geteuid, cred.getgid, cred.getegid
    fake.setuid, fake.setgid, fake.initgroups = cred.setuid, cred.setgid, cred.initgroups
    for name in ("setreuid", "setregid", "setresuid", "setresgid", "setgroups", "seteuid", "setegid"):
        setattr(fake, name, _gap(name))      # not modelled: must not silently fall through to the real process
    util_mod.os = fake
    util_mod.pwd = ns("util_mod.pwd", getpwuid=cred.getpwuid)

    def undo():
        util_mod.os, util_mod.pwd = saved
    return undo

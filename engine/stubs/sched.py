"""Deterministic interleaver: runs a few plain Python callables as threads, one at a time, switching only at the preemption
points the environment stub exposes (engine/stubs/fs.py: before every mutating system call).  The order of resumptions is
an input - in the harnesses it is the solver-chosen schedule - so a run is a pure function of (callables, order)."""
import threading


class Interleaver:
    def __init__(self, names):
        self.names = list(names)
        self.sems = {n: threading.Semaphore(0) for n in self.names}
        self.back = threading.Semaphore(0)
        self.done = {n: False for n in self.names}
        self.res = {}
        self.exc = {}
        self.trace = []

    def yield_point(self, what=None):
        """called from a task thread: hand control back to the scheduler and wait to be resumed"""
        n = threading.current_thread().name
        if n not in self.sems:
            return
        self.back.release()
        self.sems[n].acquire()

    def run(self, fns, order, before_resume=None, after_step=None):
        def body(n):
            self.sems[n].acquire()
            try:
                self.res[n] = fns[n]()
            except BaseException as e:      # noqa: B036 - reported to the harness, which decides
                self.exc[n] = e
            finally:
                self.done[n] = True
                self.back.release()

        threads = [threading.Thread(target=body, args=(n,), name=n, daemon=True) for n in self.names]
        for t in threads:
            t.start()
        i = 0
        while not all(self.done.values()):
            want = order[i] if i < len(order) else None
            i += 1
            live = [n for n in self.names if not self.done[n]]
            n = want if want in live else live[0]
            if before_resume:
                before_resume(n)
            self.trace.append(n)
            self.sems[n].release()
            if not self.back.acquire(timeout=20):
                raise RuntimeError("interleaver: task %s did not come back" % n)
            if after_step:
                after_step(n)
        for t in threads:
            t.join(5)
        return self.res, self.exc

"""Simulated kernel for the master process (gunicorn.arbiter): process table, signals, virtual clock.

Replaces, inside gunicorn.arbiter only: os.fork/kill/waitpid/getpid/getppid/read/write, time.sleep/time/
monotonic, select.select, random.random.  The Arbiter methods executed are gunicorn's own.

Contract assumed (each line is part of the claim):
 * fork() creates a live child with the next pid and returns it (parent side only).
 * kill(pid, sig): ESRCH iff pid was never created or has been reaped; TERM/QUIT/USR1 -> a cooperative
   child starts exiting and becomes a zombie (status 0) at the next sleep/select; a "stubborn" child
   ignores TERM/QUIT; ABRT -> zombie status 256 (exit code 1) at next sleep; KILL -> zombie status 9 at
   the next syscall boundary.  Signal 0 only probes.
 * waitpid(-1, WNOHANG): ECHILD when the table is empty, (pid, status) for some zombie (lowest pid), else (0, 0).
 * SIGCHLD: whenever a child turns zombie the arbiter's own handle_chld() is run at that syscall boundary
   (Python runs handlers between bytecodes, so "right after the syscall returned, before its result is
   stored" is a real delivery point).  Handlers do not nest.
 * Schedules: at each boundary one entry of the TAPE is consumed: 0 = nothing, k in 1..3 = the k-th live
   child (pid order) crashes now with the next status of STATUSES.  fork() boundaries consume the separate
   EARLY tape: 1 = the child just forked dies before fork() returns to Python code (its SIGCHLD handler
   therefore runs before `WORKERS[pid] = worker`).
 * Clock: integer deciseconds; sleep(s) advances by s, select(timeout) by timeout; nothing else advances it.
"""
import errno
import os as _os
import signal
import types

from engine.harness_api import ns


class LoopBudget(BaseException):
    """raised by the select stub to leave Arbiter.run() after the scripted number of iterations"""


class Kernel:
    def __init__(self, tape=(), early=(), statuses=(), master_signals=(), stubborn=(), budget=8):
        self.procs = {}          # pid -> "alive" | "dying" | ("zombie", status)
        self.order = []
        self.next_pid = 100
        self.sent = []           # (pid, sig) in order
        self.tape = list(tape)
        self.early = list(early)
        self.statuses = list(statuses)
        self.master_signals = list(master_signals)
        self.stubborn = set(stubborn)      # indices (0-based spawn order) of children ignoring TERM/QUIT
        self.exit_after = {}     # spawn index -> decisecond at which a TERM'd child exits (C04)
        self.term_at = {}
        self.arb = None
        self.in_handler = False
        self.now = 0             # deciseconds
        self.budget = budget     # number of select() calls allowed inside run()
        self.selects = 0
        self.pid = 1
        self.ppid = 0
        self.log = []
        self.events = []         # ("fork", pid) / ("kill", pid, sig) in program order
        self.hang = {}           # spawn index -> decisecond from which that child stops heartbeating (C11)
        self.pid_plan = []       # pids handed out by the next fork() calls (pid wrap-around); then next_pid + 1, ...
        self.deaf_first_term = False   # a freshly forked child still has the master's handlers: its first TERM is lost
        self.termed_once = set()
        self.pipe_pending = False      # the master's wake-up pipe (Arbiter.wakeup writes, Arbiter.sleep selects + drains)
        self.model_pipe = False
        self.signal_gap_ds = 0         # virtual time that passes before each scripted master signal arrives
        self.clock_reads = 0
        self.clock_deaths = {}         # clock-read index -> worker index that dies at that very read

    # -- helpers ------------------------------------------------------------------------------------
    def alive(self):
        return [p for p in self.order if self.procs.get(p) in ("alive", "dying")]

    def zombies(self):
        return [p for p in self.order if isinstance(self.procs.get(p), tuple)]

    def _next_status(self):
        return self.statuses.pop(0) if self.statuses else 9

    def _zombify(self, pid, status):
        self.procs[pid] = ("zombie", status)

    def _sigchld(self):
        if self.in_handler or self.arb is None:
            return
        self.in_handler = True
        try:
            self.arb.handle_chld(signal.SIGCHLD, None)
        finally:
            self.in_handler = False

    def _tick(self):
        """a syscall boundary at which the tape may crash a child"""
        if self.in_handler:
            return
        died = False
        for p in list(self.order):
            if self.procs.get(p) == "killed":
                self._zombify(p, 9)
                died = True
        if self.tape:
            e = self.tape.pop(0)
            if e >= 1:
                live = [p for p in self.order if self.procs.get(p) == "alive"]
                if e <= len(live):
                    self._zombify(live[e - 1], self._next_status())
                    died = True
        if died:
            self._sigchld()

    def _settle(self):
        """time passes: cooperative children that were asked to stop exit now"""
        died = False
        for i, p in enumerate(self.order):
            st = self.procs.get(p)
            if st == "dying":
                due = self.exit_after.get(i)
                if due is None or self.now >= self.term_at.get(p, 0) + due:
                    self._zombify(p, 0)
                    died = True
            elif st == "aborting":
                self._zombify(p, 256)
                died = True
            elif st == "killed":
                self._zombify(p, 9)
                died = True
        if died and not self.in_handler:
            self._sigchld()

    # -- os -----------------------------------------------------------------------------------------
    def fork(self):
        if self.pid_plan:
            pid = self.pid_plan.pop(0)
        else:
            self.next_pid += 1
            pid = self.next_pid
        self.procs[pid] = "alive"
        self.order.append(pid)
        self.events.append(("fork", pid))
        e = self.early.pop(0) if self.early else 0
        if e == 1 and not self.in_handler:
            self._zombify(pid, self._next_status())
            self._sigchld()
        return pid

    def kill(self, pid, sig):
        st = self.procs.get(pid)
        if st is None:
            raise OSError(errno.ESRCH, "No such process")
        self.sent.append((pid, int(sig)))
        self.events.append(("kill", pid, int(sig), self.now))
        idx = self.order.index(pid)
        if sig == signal.SIGTERM and self.deaf_first_term and pid not in self.termed_once:
            self.termed_once.add(pid)          # delivered before the child installed its handlers: no effect
            self._tick()
            return
        if sig in (signal.SIGTERM, signal.SIGQUIT):
            if st == "alive" and idx not in self.stubborn:
                self.procs[pid] = "dying"
                self.term_at[pid] = self.now
        elif sig == signal.SIGABRT:
            if st in ("alive", "dying") and idx not in self.stubborn:
                self.procs[pid] = "aborting"
        elif sig == signal.SIGKILL:
            if not isinstance(st, tuple):
                self.procs[pid] = "killed"
        self._tick()

    def waitpid(self, pid, flags):
        if not self.procs:
            raise OSError(errno.ECHILD, "No child processes")
        for p in list(self.order):
            st = self.procs.get(p)
            if isinstance(st, tuple):
                del self.procs[p]
                return (p, st[1])
        return (0, 0)

    def getpid(self):
        return self.pid

    def getppid(self):
        return self.ppid

    def write(self, fd, data):
        self.pipe_pending = True
        return len(data)

    def read(self, fd, n):
        if self.model_pipe and self.pipe_pending:
            self.pipe_pending = False
            return b"."
        if self.model_pipe:
            raise OSError(errno.EAGAIN, "Resource temporarily unavailable")
        return b""

    # -- time / select --------------------------------------------------------------------------------
    def sleep(self, s):
        self.now += int(round(s * 10))
        self._settle()
        self._tick()

    def time(self):
        # a clock read is a point at which a signal can arrive like at any other instruction: `clock_deaths` maps the
        # index of a clock read to the worker (index in spawn order) that dies right there, SIGCHLD handled at once
        k = self.clock_reads
        self.clock_reads += 1
        if k in self.clock_deaths and not self.in_handler:
            i = self.clock_deaths[k]
            if i < len(self.order) and self.procs.get(self.order[i]) == "alive":
                self._zombify(self.order[i], self._next_status())
                self._sigchld()
        return self.now / 10.0

    monotonic = time

    def select(self, r, w, x, timeout=None):
        """Arbiter.sleep(): deliver the next scripted master signal (TTIN/TTOU/HUP/TERM...), let time pass."""
        self.selects += 1
        if self.selects > self.budget:
            raise LoopBudget()
        self._settle()
        self._tick()
        if self.master_signals:
            sig = self.master_signals.pop(0)
            if sig:
                if self.signal_gap_ds:
                    self.now += self.signal_gap_ds
                    self._settle()
                self.arb.signal(sig, None)
                return ((list(r) if self.model_pipe else []), [], [])
        if self.model_pipe and self.pipe_pending:
            self.now += 1                      # woken up at once (0.1 s): something was written to the pipe
            return (list(r), [], [])
        self.now += int(round((timeout or 0) * 10))
        self._settle()
        return ([], [], [])


class FakeOS:
    def __init__(self, K):
        self.K = K

    def __getattr__(self, n):
        if n in ("fork", "kill", "waitpid", "getpid", "getppid", "write", "read"):
            return getattr(self.K, n)
        return getattr(_os, n)


class Tmp:
    """WorkerTmp stand-in: healthy children heartbeat continuously; a dead child's file goes stale."""

    def __init__(self, K, worker):
        self.K = K
        self.worker = worker
        self.closed = 0
        self.frozen = None

    def last_update(self):
        if self.closed:
            # the real WorkerTmp: os.fstat(self._tmp.fileno()) on a closed file object
            raise ValueError("I/O operation on closed file")
        pid = self.worker.pid
        if pid in self.K.order:
            h = self.K.hang.get(self.K.order.index(pid))
            if h is not None and self.K.now >= h:
                return h / 10.0
        st = self.K.procs.get(self.worker.pid)
        if st in ("alive", "dying"):
            if self.frozen is not None:
                return self.frozen
            return self.K.now / 10.0
        if self.frozen is None:
            self.frozen = self.K.now / 10.0
        return self.frozen

    def close(self):
        self.closed += 1


def worker_class(K):
    class FakeWorker:
        def __init__(self, age, ppid, sockets, app, timeout, cfg, log):
            self.age = age
            self.pid = "[booting]"
            self.ppid = ppid
            self.sockets = sockets
            self.timeout = timeout
            self.cfg = cfg
            self.aborted = False
            self.booted = True
            self.alive = True          # the master-side Worker object carries the same attributes as the real class
            self.nr = 0
            self.tmp = Tmp(K, self)
    return FakeWorker


class NullLog:
    def __getattr__(self, n):
        return lambda *a, **k: None


def install(A, K):
    """swap module attributes of gunicorn.arbiter (A) for the simulated kernel; returns an undo()."""
    saved = (A.os, A.time, A.select, A.random, A.util, A.sock, A.systemd)
    A.os = FakeOS(K)
    A.time = ns("A.time", sleep=K.sleep, time=K.time, monotonic=K.monotonic)
    A.select = ns("A.select", select=K.select, error=OSError)
    A.random = types.SimpleNamespace(random=lambda: 0.5)
    util_ns = types.SimpleNamespace(**{k: getattr(saved[4], k) for k in dir(saved[4]) if not k.startswith("__")})
    util_ns._setproctitle = lambda t: None
    A.util = util_ns

    def undo():
        A.os, A.time, A.select, A.random, A.util, A.sock, A.systemd = saved
    return undo

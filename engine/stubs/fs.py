"""File-system + process-liveness stub for gunicorn.pidfile (and the pid-file statements of gunicorn.arbiter).

One flat namespace of paths -> bytes.  Replaces inside gunicorn.pidfile: os.getpid/kill/write/rename/close/chmod/
unlink, os.path.isdir, tempfile.mkstemp and the builtin open() (read mode only).
 * liveness: kill(pid, 0) -> ok if pid in `alive`, EPERM if pid in `eperm`, else ESRCH
 * crash injection: every mutating call (mkstemp, write, rename, close, chmod, unlink) first increments a counter;
   when it reaches `crash_at` the call does NOT happen and Crash (a BaseException) is raised - the process died
   before that system call.  rename() is atomic (POSIX), write() is all-or-nothing (partial writes are outside the
   claim).
"""
import errno
import io
import os as _os
import types

from engine.harness_api import ns


class Crash(BaseException):
    pass


class FS:
    def __init__(self, files=None, alive=(), eperm=(), pid=1, crash_at=None):
        self.files = dict(files or {})
        self.fds = {}
        self.alive = set(alive)
        self.eperm = set(eperm)
        self.pid = pid
        self.crash_at = crash_at
        self.mut = 0
        self.ntmp = 0
        self.log = []

    def _mutating(self, what):
        if self.crash_at is not None and self.mut == self.crash_at:
            raise Crash(what)
        self.mut += 1
        self.log.append(what)

    # os
    def getpid(self):
        return self.pid

    def kill(self, pid, sig):
        if pid in self.alive:
            return
        if pid in self.eperm:
            raise OSError(errno.EPERM, "Operation not permitted")
        raise OSError(errno.ESRCH, "No such process")

    def write(self, fd, data):
        self._mutating("write")
        p = self.fds[fd]
        self.files[p] = self.files.get(p, b"") + bytes(data)
        return len(data)

    def rename(self, a, b):
        self._mutating("rename")
        if a not in self.files:
            raise OSError(errno.ENOENT, "No such file")
        self.files[b] = self.files.pop(a)
        for fd, p in list(self.fds.items()):
            if p == a:
                self.fds[fd] = b

    def close(self, fd):
        self._mutating("close")
        self.fds.pop(fd, None)

    def chmod(self, p, mode):
        self._mutating("chmod")
        if p not in self.files:
            raise OSError(errno.ENOENT, "No such file")

    def unlink(self, p):
        self._mutating("unlink")
        if p not in self.files:
            raise OSError(errno.ENOENT, "No such file")
        del self.files[p]

    def fdopen(self, fd, mode="r", *a, **k):
        fs = self

        class F:
            def write(self_, data):
                return fs.write(fd, data if isinstance(data, bytes) else data.encode())

            def close(self_):
                fs.close(fd)

            def flush(self_):
                pass

            def __enter__(self_):
                return self_

            def __exit__(self_, *exc):
                fs.close(fd)
                return False
        return F()

    # tempfile
    def mkstemp(self, dir=None, prefix=None):
        self._mutating("mkstemp")
        self.ntmp += 1
        name = "%s/tmp%d" % (dir or "/tmp", self.ntmp)
        self.files[name] = b""
        fd = 1000 + self.ntmp
        self.fds[fd] = name
        return fd, name

    # open()
    def open(self, fname, mode="r"):
        if fname not in self.files:
            raise OSError(errno.ENOENT, "No such file or directory")
        return io.StringIO(self.files[fname].decode("utf-8", "replace"))


def install(mod, fs):
    """swap os / tempfile / open in module `mod` (gunicorn.pidfile); returns undo()"""
    saved = (mod.os, mod.tempfile, getattr(mod, "open", None))
    path_ns = types.SimpleNamespace(dirname=_os.path.dirname, isdir=lambda d: True)
    mod.os = ns("mod.os", getpid=fs.getpid, kill=fs.kill, write=fs.write, rename=fs.rename, close=fs.close, fdopen=fs.fdopen,
                                   chmod=fs.chmod, unlink=fs.unlink, path=path_ns)
    mod.tempfile = ns("mod.tempfile", mkstemp=fs.mkstemp)
    mod.open = fs.open

    def undo():
        mod.os, mod.tempfile = saved[0], saved[1]
        if saved[2] is None:
            del mod.open
        else:
            mod.open = saved[2]
    return undo

"""File-system + process-liveness stub for gunicorn.pidfile (and the pid-file statements of gunicorn.arbiter).

One flat namespace of paths -> bytes.  Replaces inside gunicorn.pidfile: os.getpid/kill/write/rename/close/chmod/
unlink, os.path.isdir, tempfile.mkstemp and the builtin open() (read mode only).
 * liveness: kill(pid, 0) -> ok if pid in `alive`, EPERM if pid in `eperm`, else ESRCH
 * crash injection: every mutating call (mkstemp, write, rename, close, chmod, unlink) first increments a counter;
   when it reaches `crash_at` the call does NOT happen and Crash (a BaseException) is raised - the process died
   before that system call.  rename() is atomic (POSIX), write() is all-or-nothing (partial writes are outside the
   claim).
"""
import errno
import io
import os as _os
import types

from engine.harness_api import ns


class Crash(BaseException):
    pass


class FS:
    """paths -> inode ids -> bytes; file descriptors refer to inodes (so a rename or a second open of the same path behaves
    like POSIX: an fd keeps writing to the file it opened, O_TRUNC empties the file every other holder sees)."""

    def __init__(self, files=None, alive=(), eperm=(), pid=1, crash_at=None):
        self.paths = {}
        self.inodes = {}
        self.ninode = 0
        for p, c in (files or {}).items():
            self.paths[p] = self._new_inode(c)
        self.fds = {}            # fd -> [inode, offset]
        self.alive = set(alive)
        self.eperm = set(eperm)
        self.pid = pid
        self.crash_at = crash_at
        self.mut = 0
        self.ntmp = 0
        self.nfd = 1000
        self.log = []
        self.before_mutating = None     # hook(name): preemption point for the interleaving obligations

    def _new_inode(self, content=b""):
        self.ninode += 1
        self.inodes[self.ninode] = bytes(content)
        return self.ninode

    @property
    def files(self):
        """path -> content view (what an observer sees)"""
        return {p: self.inodes[i] for p, i in self.paths.items()}

    def put(self, path, content):
        self.paths[path] = self._new_inode(content)

    def _mutating(self, what):
        if self.before_mutating:
            self.before_mutating(what)
        if self.crash_at is not None and self.mut == self.crash_at:
            raise Crash(what)
        self.mut += 1
        self.log.append(what)

    # os
    def getpid(self):
        return self.pid

    def kill(self, pid, sig):
        if pid in self.alive:
            return
        if pid in self.eperm:
            raise OSError(errno.EPERM, "Operation not permitted")
        raise OSError(errno.ESRCH, "No such process")

    def open_fd(self, path, flags, mode=0o600):
        self._mutating("open")
        if path in self.paths:
            ino = self.paths[path]
            if flags & _os.O_EXCL and flags & _os.O_CREAT:
                raise OSError(errno.EEXIST, "File exists")
            if flags & _os.O_TRUNC:
                self.inodes[ino] = b""
        else:
            if not flags & _os.O_CREAT:
                raise OSError(errno.ENOENT, "No such file or directory")
            ino = self._new_inode()
            self.paths[path] = ino
        self.nfd += 1
        self.fds[self.nfd] = [ino, 0]
        return self.nfd

    def write(self, fd, data):
        self._mutating("write")
        ino, off = self.fds[fd]
        cur = self.inodes[ino]
        data = bytes(data)
        if off > len(cur):
            cur = cur + b"\0" * (off - len(cur))
        self.inodes[ino] = cur[:off] + data + cur[off + len(data):]
        self.fds[fd][1] = off + len(data)
        return len(data)

    def rename(self, a, b):
        self._mutating("rename")
        if a not in self.paths:
            raise OSError(errno.ENOENT, "No such file")
        self.paths[b] = self.paths.pop(a)

    def close(self, fd):
        self._mutating("close")
        self.fds.pop(fd, None)

    def chmod(self, p, mode):
        self._mutating("chmod")
        if p not in self.paths:
            raise OSError(errno.ENOENT, "No such file")

    def unlink(self, p):
        self._mutating("unlink")
        if p not in self.paths:
            raise OSError(errno.ENOENT, "No such file")
        del self.paths[p]

    def fdopen(self, fd, mode="r", *a, **k):
        fs = self

        class F:
            def write(self_, data):
                return fs.write(fd, data if isinstance(data, bytes) else data.encode())

            def close(self_):
                fs.close(fd)

            def flush(self_):
                pass

            def __enter__(self_):
                return self_

            def __exit__(self_, *exc):
                fs.close(fd)
                return False
        return F()

    # tempfile
    def mkstemp(self, dir=None, prefix=None):
        self._mutating("mkstemp")
        self.ntmp += 1
        name = "%s/tmp%d" % (dir or "/tmp", self.ntmp)
        self.paths[name] = self._new_inode()
        self.nfd += 1
        self.fds[self.nfd] = [self.paths[name], 0]
        return self.nfd, name

    # open()
    def open(self, fname, mode="r"):
        if fname not in self.paths:
            raise OSError(errno.ENOENT, "No such file or directory")
        return io.StringIO(self.inodes[self.paths[fname]].decode("utf-8", "replace"))


def install(mod, fs):
    """swap os / tempfile / open in module `mod` (gunicorn.pidfile); returns undo()"""
    saved = (mod.os, mod.tempfile, getattr(mod, "open", None))
    path_ns = types.SimpleNamespace(dirname=_os.path.dirname, isdir=lambda d: True)
    mod.os = ns("mod.os", getpid=fs.getpid, kill=fs.kill, write=fs.write, rename=fs.rename, close=fs.close, fdopen=fs.fdopen,
                open=fs.open_fd, O_WRONLY=_os.O_WRONLY, O_CREAT=_os.O_CREAT, O_TRUNC=_os.O_TRUNC, O_EXCL=_os.O_EXCL,
                O_RDWR=_os.O_RDWR, O_RDONLY=_os.O_RDONLY, replace=fs.rename,
                                   chmod=fs.chmod, unlink=fs.unlink, path=path_ns)
    mod.tempfile = ns("mod.tempfile", mkstemp=fs.mkstemp)
    mod.open = fs.open

    def undo():
        mod.os, mod.tempfile = saved[0], saved[1]
        if saved[2] is None:
            del mod.open
        else:
            mod.open = saved[2]
    return undo

"""Construct real gunicorn worker objects directly (no fork, no init_process) around stub sockets.
The worker classes, their handle()/handle_request() code, the parser, wsgi.create and Response are
gunicorn's own.  Stubbed: sockets (RecSock), logger (CountLog), clock (datetime.now / util.http_date
return constants - time is not the subject of these harnesses), WorkerTmp (never created)."""
import contextlib
import datetime as _dt
import os as _os
import types
from collections import deque
from threading import RLock

from gunicorn import util as _util
from gunicorn.config import Config
from gunicorn.http import wsgi as _wsgi
import gunicorn.workers.base as _base
import gunicorn.workers.base_async as _basync
import gunicorn.workers.gthread as _gthread
import gunicorn.workers.sync as _sync

from engine.stubs.recsock import CountLog, RecSock, Stall

_FIX = _dt.datetime(2026, 1, 1)


class _FakeDT:
    @staticmethod
    def now():
        return _FIX


_installed = False
CLOCK = [1000.0]          # what time.time() returns inside gunicorn.workers.gthread (harnesses may advance it)


def install_clock():
    """datetime.now() in the worker modules, util.http_date() and gthread's time.time() -> controlled values.
    (CrossHair ships a contract-based model of time.time that makes paths inconclusive; time is an explicit
    harness input wherever it matters.)"""
    global _installed
    if _installed:
        return
    for m in (_sync, _gthread, _basync, _base):
        m.datetime = _FakeDT
    _util.http_date = lambda *a: "Thu, 01 Jan 2026 00:00:00 GMT"
    _gthread.time = types.SimpleNamespace(time=lambda: CLOCK[0], sleep=lambda s: None)
    _installed = True


class FileOS:
    """os namespace for gunicorn.http.wsgi: lseek/fstat on the FakeFile fd (99)."""

    def __init__(self):
        self.files = {}

    def __getattr__(self, n):
        return getattr(_os, n)

    def lseek(self, fd, off, whence):
        f = self.files[fd]
        if whence == _os.SEEK_CUR:
            return f.pos
        if whence == _os.SEEK_SET:
            f.pos = off
            return off
        raise OSError("unsupported")

    def fstat(self, fd):
        return types.SimpleNamespace(st_size=len(self.files[fd].data))


FILEOS = FileOS()


def install_fileos():
    _wsgi.os = FILEOS


_CFG_CACHE = {}


def _untraced():
    """Config construction is concrete, read-only afterwards and slow under CrossHair's tracer: build it natively."""
    from engine.harness_api import SYMBOLIC
    if SYMBOLIC:
        from crosshair.tracers import NoTracing
        return NoTracing()
    return contextlib.nullcontext()


def make_cfg(**settings):
    # the whole lookup-or-build runs outside the tracer: a cache hit and a cache miss must look the same to CrossHair
    # (it checks that re-executions take the same decisions)
    with _untraced():
        key = repr(sorted(settings.items()))
        cfg = _CFG_CACHE.get(key)
        if cfg is None:
            cfg = Config()
            for k, v in settings.items():
                cfg.set(k, v)
            _CFG_CACHE[key] = cfg
    return cfg


def _common(w, cfg, app, max_requests):
    w.cfg = cfg
    w.log = CountLog()
    w.nr = 0
    w.max_requests = max_requests
    w.alive = True
    w.wsgi = app
    w.age = 1
    w.pid = 4242
    w.ppid = 1
    w.booted = True
    w.aborted = False
    return w


def sync_worker(cfg, app, max_requests=1 << 60):
    return _common(object.__new__(_sync.SyncWorker), cfg, app, max_requests)


def thread_worker(cfg, app, max_requests=1 << 60, keep=0):
    # the real ThreadWorker.__init__ / Worker.__init__ build the object (so that what they set up - the keep-alive queue,
    # the limits - is the code under test, not a copy of it); only the heartbeat file is replaced, and the construction
    # runs outside the tracer (it is concrete)
    w = object.__new__(_gthread.ThreadWorker)
    with _untraced():
        saved = _base.WorkerTmp
        _base.WorkerTmp = lambda cfg_: types.SimpleNamespace(notify=lambda: None, close=lambda: None, fileno=lambda: 9,
                                                             last_update=lambda: 0)
        try:
            _gthread.ThreadWorker.__init__(w, 1, 1, [], app, 15.0, cfg, CountLog())
        finally:
            _base.WorkerTmp = saved
    w = _common(w, cfg, app, max_requests)
    w._lock = RLock()
    for _ in range(keep):
        w._keep.append(object())
    w.nr_conns = 1
    return w


class _Async(_basync.AsyncWorker):
    def timeout_ctx(self):
        # what ggevent / geventlet return: a timeout that ends the `with` block silently when it fires
        return contextlib.suppress(Stall)


def async_worker(cfg, app, max_requests=1 << 60):
    w = _common(object.__new__(_Async), cfg, app, max_requests)
    w.worker_connections = cfg.worker_connections
    return w


def run_connection(kind, w, client, addr=("10.0.0.9", 5555), listener=None):
    """Serve one connection with the real handle().  Returns gthread's (keepalive, conn) or None."""
    listener = listener or RecSock(name=("127.0.0.1", 8000))
    if kind == "sync":
        w.handle(listener, client, addr)
        return None
    if kind == "async":
        w.handle(listener, client, addr)
        return None
    conn = _gthread.TConn(w.cfg, client, addr, listener.getsockname())
    conn.init()
    res = w.handle(conn)
    return res, conn


# ---- gthread scaffolding: scripted selector + synchronous executor ---------------------------------
class Poller:
    def __init__(self):
        self.reg = {}
        self.order = []
        self.closed = False

    on_register = None           # harness hook: the poller thread may see the socket readable right away

    def register(self, s, ev, data):
        if s in self.reg:
            raise KeyError("already registered")
        self.reg[s] = data
        self.order.append(s)
        if self.on_register:
            self.on_register(s)

    def unregister(self, s):
        if s not in self.reg:
            raise KeyError("not registered")
        del self.reg[s]
        self.order.remove(s)

    def close(self):
        self.closed = True


class Fut:
    def __init__(self, res=None, exc=None, cancelled=False):
        self._r = res
        self._e = exc
        self._c = cancelled
        self.conn = None

    def cancelled(self):
        return self._c

    def done(self):
        return True

    def result(self):
        if self._e:
            raise self._e
        return self._r

    def add_done_callback(self, cb):
        cb(self)


class SyncPool:
    """executor whose submit() runs the job to completion at once (one handler thread, no overlap)"""

    def __init__(self):
        self.jobs = 0

    def submit(self, fn, *a):
        self.jobs += 1
        try:
            return Fut(res=fn(*a))
        except Exception as e:        # what a real Future would capture
            return Fut(exc=e)

    def shutdown(self, wait=True):
        pass


def gthread_serve(w, client, addr=("10.0.0.9", 5555), max_dispatch=4):
    """accept `client` through the real ThreadWorker.accept and keep dispatching it through the real
    on_client_socket_readable / enqueue_req / handle / finish_request while it stays registered.
    Returns the number of dispatches."""
    w.tpool = SyncPool()
    w.poller = Poller()
    lst = RecSock(name=("127.0.0.1", 8000))
    lst.accept = lambda: (client, addr)
    w.nr_conns = 0
    w.accept(lst.getsockname(), lst)
    n = 0
    while client in w.poller.reg and n < max_dispatch:
        cb = w.poller.reg[client]
        cb(client)
        w.futures.clear()
        n += 1
    return n

"""Collect the results of engine/seedrun.sh runs (logs under /tmp/seedlogs) into seeded/<id>/meta.json and print the
matrix for DESIGN.md section 12.  Usage: seedreport.py [logdir]"""
import json
import os
import re
import sys

VERIF = os.path.dirname(os.path.dirname(os.path.abspath(__file__)))
LOGS = sys.argv[1] if len(sys.argv) > 1 else "/tmp/seedlogs"

WHAT = {
    "C01-1": ("Message.should_close: a client 'Connection: keep-alive' is honoured before must_close is looked at",
              "Transfer-Encoding: gzip/deflate/compress without chunked + Connection: keep-alive + further bytes on the connection"),
    "C01-2": ("set_body_reader: duplicate Content-Length check uses truthiness of the parsed int",
              "two Content-Length fields where every one before the last is numerically zero"),
    "C02-1": ("status 205 added to the bodiless statuses in is_chunked() and should_close()",
              "status exactly 205, no Content-Length, persistent request, keep-alive capable worker"),
    "C02-2": ("sendfile(): byte count no longer subtracts the file's current offset",
              "file wrapper with fileno, file position != 0, HTTP/1.1, no Content-Length"),
    "C03-1": ("manage_workers sorts the pool by pid instead of by age",
              "pid order differs from spawn order (pid wrap-around) and a surplus (TTOU / HUP)"),
    "C03-2": ("kill_worker: the KeyError guard of the ESRCH branch is lost",
              "SIGCHLD reaps a worker after a caller took its snapshot but before os.kill() on it"),
    "C04-1": ("kill_workers iterates over the live WORKERS dict",
              ">=2 workers and one leaving the table (SIGCHLD reap / ESRCH) while the master is still signalling"),
    "C04-2": ("gevent worker shutdown uses server.stop() (kills handlers after 1 s)",
              "gevent worker, graceful TERM, in-flight request longer than 1 s"),
    "C05-1": ("write_error encodes the page as UTF-8 but declares the character count",
              "rejected request quoting a latin-1 byte >= 0xA1 back to the client"),
    "C05-2": ("handle_error reads exc.req for InvalidHeaderName, which has no such attribute",
              "valid request line followed by a header whose name is not a token (sync worker dies)"),
    "C06-1": ("read_line: incomplete-line limit check drops the -2 allowance for a half-arrived CRLF",
              "request line exactly at the limit with a read boundary between CR and LF"),
    "C06-2": ("parse_trailers pushes back a slice of the stale argument instead of the current buffer",
              "non-empty trailers, a pipelined request behind them, a read boundary inside the trailer block"),
    "C07-1": ("Body.readline stores the leftover in a BytesIO positioned at 0",
              "readline/next leaving a leftover, then read(k), while the reader still has body to deliver (>1024 bytes)"),
    "C07-2": ("Parser.__next__ discards at most 8 x 8192 bytes of unread body",
              "keep-alive connection on which the application leaves more than 64 KiB of body unread"),
    "C08-1": ("wsgi.create matches its special headers after '-' -> '_' normalisation",
              "a 'Script-Name' (hyphen) header from any peer whose value prefixes the path"),
    "C08-2": ("proxy_protocol_access_check decides 'TCP peer' by unpacking a 2-tuple",
              "IPv6 peer (4-tuple) not in proxy_allow_ips sending a PROXY line"),
    "C09-1": ("start_response validates the status after storing it",
              "refused second start_response (exc_info) whose exception is swallowed, head sent afterwards"),
    "C09-2": ("hop_headers rewritten with a missing comma ('upgrade' 'server' concatenated)",
              "application header named Server (or Upgrade with a non-websocket value)"),
    "C10-1": ("reload compares the raw bind strings instead of the parsed addresses",
              "HUP whose new config spells the same address differently (tcp:// prefix, host case)"),
    "C10-2": ("manage_workers sorts by pid (same edit as C03-1, found independently)",
              "pid wrap-around between the old and the new generation"),
    "C11-1": ("run_for_multiple notifies once before the loop over ready listeners (reverts fix 321a19e)",
              ">=2 listeners ready in one select round, requests each < timeout whose sum exceeds it"),
    "C11-2": ("murder_workers no longer sets worker.aborted (moved to the child's handle_abort)",
              "hung worker that survives SIGABRT: never escalated to SIGKILL"),
    "C12-1": ("same edit as C06-1 (read_line -2 allowance)", "line length == limit, CR / LF split"),
    "C12-2": ("parse_chunk_size cap tests a stale copy of the buffer",
              "chunked body whose chunk-size line never contains CRLF"),
    "C13-1": ("finish_request registers the socket before, and outside, the lock that appends to _keep",
              "next request already readable when a keep-alive connection is re-armed from a pool thread"),
    "C13-2": ("accept() increments nr_conns before the try and does not give it back on EAGAIN/ECONNABORTED",
              "accept() failing after the listener polled readable"),
    "C14-1": ("set_inheritable(True) only for freshly bound sockets",
              "second upgrade from a master that itself adopted its listeners (real fd inheritance)"),
    "C14-2": ("reap_workers applies the boot-failure exit codes to the re-exec'd master as well",
              "new master exits with status 3 or 4 while the upgrade is pending"),
    "C15-1": ("parse_headers strips header values with str.strip()",
              "header value beginning/ending with 0x0B 0x0C 0x1C-0x1F 0x85 0xA0"),
    "C15-2": ("request-target check only refuses TAB (reverts part of fix 7cc4694)",
              "bare CR or LF in the request target"),
    "C16-1": ("load_config treats falsy command-line / env values as 'not given'",
              "--workers 0, --timeout 0, --no-sendfile, ... with a different value in a lower source"),
    "C16-2": ("Setting.set skips the validator when the new value == the current one",
              "invalid value equal to the current one under Python equality (workers = 1.0, reload = 0)"),
    "C17-1": ("Pidfile.create renames the temp file before writing it",
              "crash / second instance between rename and write"),
    "C17-2": ("Pidfile.rename moves the file with os.rename without validating the target",
              "another live master owns the target path when the new master is promoted"),
    "C18-1": ("run_for_one: inner accept loop that does not re-check self.alive",
              "a connection already waiting in the backlog when the limit-reaching request finishes"),
    "C18-2": ("ThreadWorker.run cancels queued futures before the final wait",
              "more submitted connections than threads when the worker is recycled"),
    "C19-1": ("SafeAtoms escapes only on the single-letter lookup path",
              "access_log_format using a {name}i/o/e atom carrying a value with CR/LF"),
    "C19-2": ("sendfile adds the requested count, not the bytes sent, to resp.sent",
              "file wrapper with a declared Content-Length larger than what is left in the file"),
    "C20-1": ("WorkerTmp chown guard uses `and` over the two ids",
              "exactly one of user / group differs from the master's"),
    "C20-2": ("initgroups() moved inside `if gid != os.getgid()`",
              "initgroups=True and a privileged master whose gid already equals the configured group"),
    # ---- round 2 (sub-agents asked for a change different from the round-1 ones) ----
    "C01-3": ("parse_chunk_size validates with bytes.isalnum() + int(x, 16) instead of the explicit hex-digit test",
              "chunk-size spelled with a 0x / 0X prefix ('0x5'), which int(.., 16) accepts"),
    "C01-4": ("VERSION_RE rewritten as '[0-9]' with a trailing '$' and applied with match() instead of fullmatch()",
              "request line whose version is followed by a bare LF ('HTTP/1.1\\n'): '$' matches before a final newline"),
    "C02-3": ("TConn.init only makes the socket blocking the first time (same edit as C13-3)",
              "gthread keep-alive connection taken back from the poller (non-blocking) whose next request is handled"),
    "C02-4": ("the reset of headers / response_length on a replacing start_response moves into process_headers and forgets response_length",
              "application that calls start_response twice (exc_info) where the first call declared a Content-Length and the second does not"),
    "C03-3": ("Arbiter.signal drops a signal that is already queued",
              "two TTIN (or TTOU) arriving before the main loop drains the queue: the second is lost"),
    "C03-4": ("Worker.init_process sets booted = True before the post_worker_init hook runs",
              "post_worker_init (or anything before run()) failing: the exit is no longer reported as a boot failure (status 3) so the master respawns forever"),
    "C04-3": ("reload keeps the pidfile object when the new configuration names the same path",
              "HUP with an unchanged pidfile path followed by TERM: the Pidfile object made by reload() never records its pid (create() returns early on 'already ours'), so the file survives the shutdown"),
    "C04-4": ("stop() waits min(graceful_timeout, timeout) instead of graceful_timeout",
              "graceful stop with timeout < graceful_timeout and a worker still finishing a request after `timeout` seconds: SIGKILLed early"),
    "C05-3": ("async keep-alive loop no longer resets req = None before parsing the next request",
              "second request on a keep-alive connection that is malformed: the error is handled with the previous request object"),
    "C05-4": ("write_nonblock tests the truthiness of gettimeout()",
              "blocking socket (gettimeout() is None): the error page is written without switching the socket to non-blocking"),
    "C06-3": ("Request.parse drops one leading CRLF from the first read buffer only",
              "empty line before the request line, with the read boundary inside / after that CRLF: outcome depends on segmentation"),
    "C06-4": ("parse_chunk_size rejects early when the partial size line contains a non-hex byte",
              "chunk-size line with BWS / extension ('5 ;ext') arriving split from its CRLF: accepted in one piece, rejected when split"),
    "C07-3": ("parse_trailers returns the bytes behind the trailer block instead of pushing them back",
              "chunked request with trailers followed by a pipelined request in the same read"),
    "C07-4": ("Body.readlines uses bytes.splitlines(True)",
              "body containing a bare CR: splitlines also splits there"),
    "C08-3": ("forwarded_allow_ips is tested against the PROXY-protocol client address instead of the TCP peer",
              "proxy_protocol on, PROXY line naming an address inside forwarded_allow_ips sent through a peer that is not"),
    "C08-4": ("the '*' test for forwarder_headers reads cfg.forwarder_headers outside the trust gate",
              "forwarder_headers = '*' and an untrusted peer sending SCRIPT_NAME / PATH_INFO style headers"),
    "C09-3": ("HEADER_VALUE_RE anchored with ^...$ and applied with match()",
              "header value or status ending in a single LF: '$' matches before it, the LF reaches the wire"),
    "C09-4": ("is_hoppish compares the name as given (no lower())",
              "application sending a hop-by-hop header in other than lower case ('Connection', 'Keep-Alive')"),
    "C10-3": ("manage_workers marks a surplus worker alive=False and never signals it twice",
              "surplus worker whose first TERM is lost (still booting, inherited handlers): never signalled again, the old generation survives the reload"),
    "C10-4": ("Application.load_config calls chdir() only once, after the config file was read",
              "relative config file path / relative paths in the config file together with --chdir on the command line"),
    "C11-3": ("WorkerTmp.notify throttled to one utime per second",
              "heartbeat emitted < 1 s after the previous one is skipped: a request that starts then and is shorter than the timeout gets the worker killed"),
    "C11-4": ("murder_workers only runs when sleep() timed out",
              "master woken up at least once a second (signals, chatty children): hung workers are never killed"),
    "C12-3": ("request-line limit raised to at least 107 bytes on the first request when proxy_protocol is on",
              "limit_request_line < 107 with proxy_protocol: an over-long request line is accepted"),
    "C12-4": ("limit_request_fields checked once against the number of lines (continuation lines counted, off by one)",
              "exactly limit+1 lines with obsolete folding, or limit fields exactly"),
    "C13-3": ("TConn.init only makes the socket blocking the first time",
              "keep-alive connection re-dispatched from the poller: handled on a non-blocking socket"),
    "C13-4": ("keep-alive admission uses > instead of >= max_keepalived",
              "keep-alive queue exactly at its limit: one more connection is parked than worker_connections allows"),
    "C14-3": ("Pidfile.rename switches fname before unlink()",
              "promotion of a re-exec'd master: the .2 pid file is never removed (and a foreign file at the new path is)"),
    "C14-4": ("Arbiter.setup keeps num_workers across a reload unless the configured value changed",
              "TTIN/TTOU followed by HUP with an unchanged workers setting"),
    "C15-3": ("base_environ cached with lru_cache: every request shares one dict",
              "two requests in one worker: environ keys of the first leak into the second"),
    "C15-4": ("split_request_uri for //-paths strips the slashes and splits the rest",
              "target starting with // whose remainder contains ':' or looks like scheme:..."),
    "C16-3": ("config-file names are no longer filtered by `k not in settings`; unknown ones are caught via AttributeError",
              "config file defining an upper/mixed-case variable that lower-cases to a setting name (WORKERS = 0)"),
    "C16-4": ("GUNICORN_CMD_ARGS split with shlex posix=False",
              "quoted values in GUNICORN_CMD_ARGS: the quotes stay in the value"),
    "C17-3": ("reload creates the new pid file before unlinking the old one",
              "HUP with an unchanged pidfile path: create() sees its own pid and keeps the file, then unlink() removes it"),
    "C17-4": ("Pidfile.create writes through a fixed '<pidfile>.tmp' opened with O_CREAT|O_TRUNC instead of mkstemp",
              "two masters starting concurrently: one truncates the temp file the other is about to rename"),
    "C18-3": ("max_requests computed as (max_requests + jitter) or maxsize",
              "max_requests = 0 (unlimited) with max_requests_jitter > 0: workers restart after `jitter` requests"),
    "C18-4": ("ThreadWorker.run closes its listeners with sock.close_sockets (which unlinks unix sockets)",
              "unix-socket listener and a gthread worker recycled by max_requests: the socket path disappears for the whole server"),
    "C19-3": ("same edit as C05-3 (req not reset in the async keep-alive loop)",
              "malformed 2nd request on a keep-alive connection: access log entry attributed to the previous request"),
    "C19-4": ("Response.write counts util.write()'s return value (chunk framing included) instead of the payload length",
              "chunked response: resp.sent / %B include the chunk-size lines"),
    "C20-3": ("set_owner_process masks the gid with abs(gid) & 0x7FFFFFFF",
              "group id >= 2**31 (nogroup = 4294967294 style)"),
    "C20-4": ("UnixSocket.bind skips chown when the configured ids equal the master's effective ids",
              "socket directory with setgid bit / different group: the socket keeps the directory's group"),
}


def parse(seed):
    p = os.path.join(LOGS, seed + ".summary.txt")
    if not os.path.exists(p):
        return None
    txt = open(p).read()
    d = {}
    for k in ("demo_clean_exit", "suite_exit", "demo_changed_exit"):
        m = re.search(k + r"=(\d+)", txt)
        d[k] = int(m.group(1)) if m else None
    d["checks"] = {}
    for m in re.finditer(r"check_(C\d+) exit=(\d+) (\d+) violations; ?(.*)", txt):
        d["checks"][m.group(1)] = {"exit": int(m.group(2)), "violation_lines": int(m.group(3)), "first": m.group(4)[:300]}
    return d


def main():
    rows = []
    for seed in sorted(WHAT):
        r = parse(seed)
        if r is None:
            continue
        prop = seed.split("-")[0]
        what, needs = WHAT[seed]
        detected = [c for c, v in r["checks"].items() if v["exit"] == 1 and v["violation_lines"] > 0]
        meta = {
            "seed": seed, "breaks_property": prop, "change": what, "needs_to_manifest": needs,
            "confirmed": {"suite_passes_with_change": r["suite_exit"] == 0, "demo_exit_on_unmodified_tree": r["demo_clean_exit"],
                          "demo_exit_with_change": r["demo_changed_exit"],
                          "how": "engine/seedrun.sh in a scratch worktree of /repo HEAD (git apply patch.diff; pytest tests; demo.py)"},
            "checks_run": r["checks"], "detected_by": detected,
            "origin": "independent sub-agent given only the property text and a scratch worktree",
        }
        d = os.path.join(VERIF, "seeded", seed)
        if os.path.isdir(d):
            with open(os.path.join(d, "meta.json"), "w") as f:
                json.dump(meta, f, indent=1)
        ce = ""
        for c in detected:
            ce = r["checks"][c]["first"]
        verdict = "caught by " + ", ".join(detected) if detected else ("MISSED (exits: %s)" % {c: v["exit"] for c, v in r["checks"].items()})
        rows.append("| %s | %s | %s | %s |" % (seed, what, needs, verdict))
    print("| seed | change | needs | result |")
    print("|---|---|---|---|")
    print("\n".join(rows))


if __name__ == "__main__":
    main()

"""Collect the results of engine/seedrun.sh runs (logs under /tmp/seedlogs) into seeded/<id>/meta.json and print the
matrix for DESIGN.md section 12.  Usage: seedreport.py [logdir]"""
import json
import os
import re
import sys

VERIF = os.path.dirname(os.path.dirname(os.path.abspath(__file__)))
LOGS = sys.argv[1] if len(sys.argv) > 1 else "/tmp/seedlogs"

WHAT = {
    "C01-1": ("Message.should_close: a client 'Connection: keep-alive' is honoured before must_close is looked at",
              "Transfer-Encoding: gzip/deflate/compress without chunked + Connection: keep-alive + further bytes on the connection"),
    "C01-2": ("set_body_reader: duplicate Content-Length check uses truthiness of the parsed int",
              "two Content-Length fields where every one before the last is numerically zero"),
    "C02-1": ("status 205 added to the bodiless statuses in is_chunked() and should_close()",
              "status exactly 205, no Content-Length, persistent request, keep-alive capable worker"),
    "C02-2": ("sendfile(): byte count no longer subtracts the file's current offset",
              "file wrapper with fileno, file position != 0, HTTP/1.1, no Content-Length"),
    "C03-1": ("manage_workers sorts the pool by pid instead of by age",
              "pid order differs from spawn order (pid wrap-around) and a surplus (TTOU / HUP)"),
    "C03-2": ("kill_worker: the KeyError guard of the ESRCH branch is lost",
              "SIGCHLD reaps a worker after a caller took its snapshot but before os.kill() on it"),
    "C04-1": ("kill_workers iterates over the live WORKERS dict",
              ">=2 workers and one leaving the table (SIGCHLD reap / ESRCH) while the master is still signalling"),
    "C04-2": ("gevent worker shutdown uses server.stop() (kills handlers after 1 s)",
              "gevent worker, graceful TERM, in-flight request longer than 1 s"),
    "C05-1": ("write_error encodes the page as UTF-8 but declares the character count",
              "rejected request quoting a latin-1 byte >= 0xA1 back to the client"),
    "C05-2": ("handle_error reads exc.req for InvalidHeaderName, which has no such attribute",
              "valid request line followed by a header whose name is not a token (sync worker dies)"),
    "C06-1": ("read_line: incomplete-line limit check drops the -2 allowance for a half-arrived CRLF",
              "request line exactly at the limit with a read boundary between CR and LF"),
    "C06-2": ("parse_trailers pushes back a slice of the stale argument instead of the current buffer",
              "non-empty trailers, a pipelined request behind them, a read boundary inside the trailer block"),
    "C07-1": ("Body.readline stores the leftover in a BytesIO positioned at 0",
              "readline/next leaving a leftover, then read(k), while the reader still has body to deliver (>1024 bytes)"),
    "C07-2": ("Parser.__next__ discards at most 8 x 8192 bytes of unread body",
              "keep-alive connection on which the application leaves more than 64 KiB of body unread"),
    "C08-1": ("wsgi.create matches its special headers after '-' -> '_' normalisation",
              "a 'Script-Name' (hyphen) header from any peer whose value prefixes the path"),
    "C08-2": ("proxy_protocol_access_check decides 'TCP peer' by unpacking a 2-tuple",
              "IPv6 peer (4-tuple) not in proxy_allow_ips sending a PROXY line"),
    "C09-1": ("start_response validates the status after storing it",
              "refused second start_response (exc_info) whose exception is swallowed, head sent afterwards"),
    "C09-2": ("hop_headers rewritten with a missing comma ('upgrade' 'server' concatenated)",
              "application header named Server (or Upgrade with a non-websocket value)"),
    "C10-1": ("reload compares the raw bind strings instead of the parsed addresses",
              "HUP whose new config spells the same address differently (tcp:// prefix, host case)"),
    "C10-2": ("manage_workers sorts by pid (same edit as C03-1, found independently)",
              "pid wrap-around between the old and the new generation"),
    "C11-1": ("run_for_multiple notifies once before the loop over ready listeners (reverts fix 321a19e)",
              ">=2 listeners ready in one select round, requests each < timeout whose sum exceeds it"),
    "C11-2": ("murder_workers no longer sets worker.aborted (moved to the child's handle_abort)",
              "hung worker that survives SIGABRT: never escalated to SIGKILL"),
    "C12-1": ("same edit as C06-1 (read_line -2 allowance)", "line length == limit, CR / LF split"),
    "C12-2": ("parse_chunk_size cap tests a stale copy of the buffer",
              "chunked body whose chunk-size line never contains CRLF"),
    "C13-1": ("finish_request registers the socket before, and outside, the lock that appends to _keep",
              "next request already readable when a keep-alive connection is re-armed from a pool thread"),
    "C13-2": ("accept() increments nr_conns before the try and does not give it back on EAGAIN/ECONNABORTED",
              "accept() failing after the listener polled readable"),
    "C14-1": ("set_inheritable(True) only for freshly bound sockets",
              "second upgrade from a master that itself adopted its listeners (real fd inheritance)"),
    "C14-2": ("reap_workers applies the boot-failure exit codes to the re-exec'd master as well",
              "new master exits with status 3 or 4 while the upgrade is pending"),
    "C15-1": ("parse_headers strips header values with str.strip()",
              "header value beginning/ending with 0x0B 0x0C 0x1C-0x1F 0x85 0xA0"),
    "C15-2": ("request-target check only refuses TAB (reverts part of fix 7cc4694)",
              "bare CR or LF in the request target"),
    "C16-1": ("load_config treats falsy command-line / env values as 'not given'",
              "--workers 0, --timeout 0, --no-sendfile, ... with a different value in a lower source"),
    "C16-2": ("Setting.set skips the validator when the new value == the current one",
              "invalid value equal to the current one under Python equality (workers = 1.0, reload = 0)"),
    "C17-1": ("Pidfile.create renames the temp file before writing it",
              "crash / second instance between rename and write"),
    "C17-2": ("Pidfile.rename moves the file with os.rename without validating the target",
              "another live master owns the target path when the new master is promoted"),
    "C18-1": ("run_for_one: inner accept loop that does not re-check self.alive",
              "a connection already waiting in the backlog when the limit-reaching request finishes"),
    "C18-2": ("ThreadWorker.run cancels queued futures before the final wait",
              "more submitted connections than threads when the worker is recycled"),
    "C19-1": ("SafeAtoms escapes only on the single-letter lookup path",
              "access_log_format using a {name}i/o/e atom carrying a value with CR/LF"),
    "C19-2": ("sendfile adds the requested count, not the bytes sent, to resp.sent",
              "file wrapper with a declared Content-Length larger than what is left in the file"),
    "C20-1": ("WorkerTmp chown guard uses `and` over the two ids",
              "exactly one of user / group differs from the master's"),
    "C20-2": ("initgroups() moved inside `if gid != os.getgid()`",
              "initgroups=True and a privileged master whose gid already equals the configured group"),
}


def parse(seed):
    p = os.path.join(LOGS, seed + ".summary.txt")
    if not os.path.exists(p):
        return None
    txt = open(p).read()
    d = {}
    for k in ("demo_clean_exit", "suite_exit", "demo_changed_exit"):
        m = re.search(k + r"=(\d+)", txt)
        d[k] = int(m.group(1)) if m else None
    d["checks"] = {}
    for m in re.finditer(r"check_(C\d+) exit=(\d+) (\d+) violations; ?(.*)", txt):
        d["checks"][m.group(1)] = {"exit": int(m.group(2)), "violation_lines": int(m.group(3)), "first": m.group(4)[:300]}
    return d


def main():
    rows = []
    for seed in sorted(WHAT):
        r = parse(seed)
        if r is None:
            continue
        prop = seed.split("-")[0]
        what, needs = WHAT[seed]
        detected = [c for c, v in r["checks"].items() if v["exit"] == 1 and v["violation_lines"] > 0]
        meta = {
            "seed": seed, "breaks_property": prop, "change": what, "needs_to_manifest": needs,
            "confirmed": {"suite_passes_with_change": r["suite_exit"] == 0, "demo_exit_on_unmodified_tree": r["demo_clean_exit"],
                          "demo_exit_with_change": r["demo_changed_exit"],
                          "how": "engine/seedrun.sh in a scratch worktree of /repo HEAD (git apply patch.diff; pytest tests; demo.py)"},
            "checks_run": r["checks"], "detected_by": detected,
            "origin": "independent sub-agent given only the property text and a scratch worktree",
        }
        d = os.path.join(VERIF, "seeded", seed)
        if os.path.isdir(d):
            with open(os.path.join(d, "meta.json"), "w") as f:
                json.dump(meta, f, indent=1)
        ce = ""
        for c in detected:
            ce = r["checks"][c]["first"]
        verdict = "caught by " + ", ".join(detected) if detected else ("MISSED (exits: %s)" % {c: v["exit"] for c, v in r["checks"].items()})
        rows.append("| %s | %s | %s | %s |" % (seed, what, needs, verdict))
    print("| seed | change | needs | result |")
    print("|---|---|---|---|")
    print("\n".join(rows))


if __name__ == "__main__":
    main()

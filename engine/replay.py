"""Concrete replay of a counterexample / witness: plain CPython, no CrossHair, no shim, no extension.

usage: replay.py <replay.json>      (run with /venv/bin/python, PYTHONPATH=/repo:/verif)
The file holds {"module","fn","case","args": {name: repr}}.
Prints one JSON line: {"pre": bool, "result": true|false|"exception", "exception": str}
result == false or "exception"  <=>  the harness' postcondition fails concretely (reproduced).
"""
import ast
import importlib
import inspect
import json
import os
import sys
import traceback

os.environ.pop("VERIF_SYMBOLIC", None)


def parse_contract(fn):
    pres, raises = [], []
    for line in (fn.__doc__ or "").splitlines():
        s = line.strip()
        if s.startswith("pre:"):
            pres.append(s[4:].strip())
        elif s.startswith("raises:"):
            raises += [x.strip() for x in s[7:].split(",") if x.strip()]
    return pres, raises


def _innermost_in_verif(e):
    tb = e.__traceback__
    last = None
    while tb is not None:
        last = tb.tb_frame.f_code.co_filename
        tb = tb.tb_next
    root = os.path.dirname(os.path.dirname(os.path.abspath(__file__)))
    return bool(last) and os.path.abspath(last).startswith(root + os.sep)


def run(spec):
    if spec.get("ignore_known"):
        # replaying the recorded witness of a known finding: its own exclusion predicate must not apply
        import engine.harness_api as api
        api._KF = {"findings": [], "fixed": []}
    mod = importlib.import_module(spec["module"])
    mod.CASE = spec.get("case") or {}
    fn = getattr(mod, spec["fn"])
    sig = inspect.signature(fn)
    kwargs = {}
    for name in sig.parameters:
        kwargs[name] = ast.literal_eval(spec["args"][name])
    pres, raises = parse_contract(fn)
    out = {"pre": True}
    env = dict(vars(mod))
    env.update(kwargs)
    for p in pres:
        try:
            if not eval(p, env):
                out["pre"] = False
                out["failed_pre"] = p
        except Exception as e:  # a pre that raises is treated like CrossHair does: not met
            out["pre"] = False
            out["failed_pre"] = "%s raised %r" % (p, e)
    from engine.harness_api import StubGap
    try:
        r = fn(**kwargs)
        out["result"] = bool(r)
    except StubGap as e:
        out["result"] = "stubgap"           # the stub does not model something the code now uses: harness error
        out["exception"] = str(e)
    except Exception as e:
        if type(e).__name__ in raises:
            out["result"] = True
        elif isinstance(e, (NameError, ImportError, SyntaxError)) and _innermost_in_verif(e):
            # a slip in the harness itself (missing import, typo): says nothing about the property
            out["result"] = "harness-bug"
            out["exception"] = traceback.format_exc()[-2000:]
        else:
            out["result"] = "exception"
            out["exception"] = traceback.format_exc()[-2000:]
    return out


if __name__ == "__main__":
    with open(sys.argv[1]) as f:
        spec = json.load(f)
    print("@@REPLAY@@" + json.dumps(run(spec)))

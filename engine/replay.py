"""Concrete replay of a counterexample / witness: plain CPython, no CrossHair, no shim, no extension.

usage: replay.py <replay.json>      (run with /venv/bin/python, PYTHONPATH=/repo:/verif)
The file holds {"module","fn","case","args": {name: repr}}.
Prints one JSON line: {"pre": bool, "result": true|false|"exception", "exception": str}
result == false or "exception"  <=>  the harness' postcondition fails concretely (reproduced).
"""
import ast
import importlib
import inspect
import json
import os
import sys
import traceback

os.environ.pop("VERIF_SYMBOLIC", None)


def parse_contract(fn):
    pres, raises = [], []
    for line in (fn.__doc__ or "").splitlines():
        s = line.strip()
        if s.startswith("pre:"):
            pres.append(s[4:].strip())
        elif s.startswith("raises:"):
            raises += [x.strip() for x in s[7:].split(",") if x.strip()]
    return pres, raises


def run(spec):
    if spec.get("ignore_known"):
        # replaying the recorded witness of a known finding: its own exclusion predicate must not apply
        import engine.harness_api as api
        api._KF = {"findings": [], "fixed": []}
    mod = importlib.import_module(spec["module"])
    mod.CASE = spec.get("case") or {}
    fn = getattr(mod, spec["fn"])
    sig = inspect.signature(fn)
    kwargs = {}
    for name in sig.parameters:
        kwargs[name] = ast.literal_eval(spec["args"][name])
    pres, raises = parse_contract(fn)
    out = {"pre": True}
    env = dict(vars(mod))
    env.update(kwargs)
    for p in pres:
        try:
            if not eval(p, env):
                out["pre"] = False
                out["failed_pre"] = p
        except Exception as e:  # a pre that raises is treated like CrossHair does: not met
            out["pre"] = False
            out["failed_pre"] = "%s raised %r" % (p, e)
    from engine.harness_api import StubGap
    try:
        r = fn(**kwargs)
        out["result"] = bool(r)
    except StubGap as e:
        out["result"] = "stubgap"           # the stub does not model something the code now uses: harness error
        out["exception"] = str(e)
    except Exception as e:
        if type(e).__name__ in raises:
            out["result"] = True
        else:
            out["result"] = "exception"
            out["exception"] = traceback.format_exc()[-2000:]
    return out


if __name__ == "__main__":
    with open(sys.argv[1]) as f:
        spec = json.load(f)
    print("@@REPLAY@@" + json.dumps(run(spec)))

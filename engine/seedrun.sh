#!/bin/bash
# usage: seedrun.sh <worktree> <diff> <demo.py> <logprefix> <check ids...>
# Confirms a seeded change in a scratch worktree (suite passes, demo fails with / passes without), then runs the
# given checks against that worktree (VERIF_REPO) and records their exit codes.  Never touches /repo.
WT="$1"; DIFF="$2"; DEMO="$3"; LOG="$4"; shift 4
cd "$WT" || exit 9
git checkout -q -- . || exit 9
# follow /repo's HEAD (fix: commits made while seeds are being evaluated)
git checkout -q --detach "$(git -C /repo rev-parse HEAD)" || exit 9
{
echo "== clean tree: demo"
PYTHONPATH="$WT" timeout 300 /venv/bin/python "$DEMO" > "$LOG.demo_clean.txt" 2>&1; echo "demo_clean_exit=$?"
git apply "$DIFF" || { echo "APPLY FAILED"; exit 9; }
echo "== changed tree: suite"
timeout 900 /venv/bin/python -m pytest -q -p no:cacheprovider tests > "$LOG.suite.txt" 2>&1; echo "suite_exit=$? $(tail -1 "$LOG.suite.txt")"
PYTHONPATH="$WT" timeout 300 /venv/bin/python "$DEMO" > "$LOG.demo_changed.txt" 2>&1; echo "demo_changed_exit=$?"
for id in "$@"; do
  ( cd /verif && VERIF_REPO="$WT" VERIF_VERBOSE=1 VERIF_FAILFAST=1 timeout 3600 bin/check "$id" --no-evidence > "$LOG.$id.txt" 2>&1; echo "check_$id exit=$? $(grep -c '^VIOLATION' "$LOG.$id.txt") violations; $(grep -m2 '^counterexample' "$LOG.$id.txt" | cut -c1-300)" )
done
git checkout -q -- .
rm -f coverage.xml
} 2>&1 | tee "$LOG.summary.txt"

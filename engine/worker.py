"""Run ONE obligation (harness function + case) under CrossHair and print a JSON result line.

usage: worker.py <harness module> <function> <case-json> <per_condition_timeout> [<per_path_timeout>]

The harness module is imported with VERIF_SYMBOLIC=1 so that it installs the BytesIO shim and the
engine extension.  gunicorn is imported from PYTHONPATH (=/repo): the code analysed is the
current working tree.
"""
import importlib
import json
import os
import sys
import time
import traceback

os.environ["VERIF_SYMBOLIC"] = "1"


def main():
    modname, fname, case_json, cond_timeout = sys.argv[1:5]
    path_timeout = float(sys.argv[5]) if len(sys.argv) > 5 and sys.argv[5] else None
    case = json.loads(case_json)
    smt = sys.argv[6] if len(sys.argv) > 6 else ""
    t0 = time.time()
    res = {"module": modname, "fn": fname, "case": case, "status": "error"}
    if smt:
        # direct z3 obligation: the generator reads the real code and returns the verdict / a model
        os.environ.pop("VERIF_SYMBOLIC", None)
        try:
            mod = importlib.import_module(modname)
            mod.CASE = case
            out = getattr(mod, smt)(case)
            res.update(out)
            res.setdefault("paths", out.get("solver_calls", 0))
            res.setdefault("confirmed_paths", 0)
            res.setdefault("solver_unknown", 0)
        except BaseException:
            res["error"] = traceback.format_exc()[-4000:]
        res["wall_s"] = round(time.time() - t0, 3)
        res["cpu_s"] = round(time.process_time(), 3)
        sys.stdout.write("\n@@RESULT@@" + json.dumps(res) + "\n")
        sys.stdout.flush()
        return
    try:
        import z3
        stats = {"solver_calls": 0, "solver_s": 0.0, "unknown": 0}
        _orig_check = z3.Solver.check

        def _check(self, *a):
            s = time.perf_counter()
            r = _orig_check(self, *a)
            stats["solver_calls"] += 1
            stats["solver_s"] += time.perf_counter() - s
            if str(r) == "unknown":
                stats["unknown"] += 1
            return r
        z3.Solver.check = _check

        import engine.ch_ext  # noqa: F401
        from crosshair import core
        from crosshair.core import analyze_calltree
        from crosshair.condition_parser import condition_parser
        from crosshair.fnutil import FunctionInfo
        from crosshair.options import DEFAULT_OPTIONS, AnalysisOptionSet
        from crosshair.statespace import MessageType, VerificationStatus
        from crosshair.tracers import NoTracing
        from dataclasses import replace
        import collections

        mod = importlib.import_module(modname)
        mod.CASE = case
        fn = getattr(mod, fname)

        # capture counterexample arguments as python objects
        captured = {}
        _orig_mk = core.make_counterexample_message

        def _mk(conditions, args, return_val=None):
            msg = _orig_mk(conditions, args, return_val)
            try:
                with NoTracing():
                    from crosshair.core import deep_realize
                    real = deep_realize(args)
                    captured["args"] = {k: repr(v) for k, v in real.arguments.items()}
            except Exception:
                captured["args_error"] = traceback.format_exc()
            return msg
        core.make_counterexample_message = _mk

        opts = AnalysisOptionSet(per_condition_timeout=float(cond_timeout),
                                 stats=collections.Counter())
        if path_timeout:
            opts.per_path_timeout = path_timeout
        options = DEFAULT_OPTIONS.overlay(opts)
        ctxfn = FunctionInfo.from_fn(fn)
        with condition_parser(options.analysis_kind) as parser:
            conditions = parser.get_fn_conditions(ctxfn)
        if conditions is None:
            raise RuntimeError("no contract on %s" % fname)
        syn = list(conditions.syntax_messages())
        if syn:
            raise RuntimeError("contract syntax: %s" % [m.message for m in syn])
        posts = [p for p in conditions.post if p.evaluate is not None]
        if len(posts) != 1:
            raise RuntimeError("exactly one post: expected, got %d" % len(posts))
        conditions = replace(conditions, post=posts)
        options.deadline = time.process_time() + options.per_condition_timeout
        with condition_parser(options.analysis_kind):
            analysis = analyze_calltree(options, conditions)
        vs = analysis.verification_status
        msgs = [{"state": m.state.name, "message": m.message, "line": m.line,
                 "trace": (m.traceback or "")[-1500:]} for m in analysis.messages]
        if any(m.state == MessageType.PRE_UNSAT for m in analysis.messages):
            status = "pre_unsat"
        elif vs == VerificationStatus.CONFIRMED:
            status = "confirmed"
        elif vs == VerificationStatus.REFUTED:
            status = "refuted"
        else:
            status = "unknown"
        res.update(status=status, messages=msgs, ce_args=captured.get("args"),
                   paths=int(options.stats.get("num_paths", 0)),
                   confirmed_paths=int(analysis.num_confirmed_paths),
                   solver_calls=stats["solver_calls"], solver_s=round(stats["solver_s"], 3),
                   solver_unknown=stats["unknown"])
    except BaseException:
        res["error"] = traceback.format_exc()[-4000:]
    res["wall_s"] = round(time.time() - t0, 3)
    res["cpu_s"] = round(time.process_time(), 3)
    sys.stdout.write("\n@@RESULT@@" + json.dumps(res) + "\n")
    sys.stdout.flush()


if __name__ == "__main__":
    main()

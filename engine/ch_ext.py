"""CrossHair extension: symbolic (non-realising) versions of the byte/str operations gunicorn's
parser and formatter code uses and that crosshair-tool 0.0.110 only supports by *realisation*
(value-by-value enumeration).  Part of the trusted base; validated differentially against CPython
by `selftest()` (run by setup_cmd and by `bin/check --selftest`).

Replaced operations (see DESIGN.md 2.2):
  bytes.split(sep[, n])                      find-based, stays symbolic
  sym_int in b"...."                         interval tests instead of realising the int
  int(symbolic bytes/str, 10|16)             positional evaluation over codepoints
  str(symbolic_bytes, enc)                   routed to CrossHair's symbolic codecs.decode
  "fmt" % args  (concrete fmt; %s %r %d %x %X %%, optional (key))   piecewise join
Anything outside those shapes falls back to CrossHair's stock behaviour.
"""
import builtins
import codecs
import re as _re

import crosshair.core_and_libs  # noqa: F401  (stock registrations first, then ours replace them)
from crosshair import core
from crosshair import opcode_intercept as oi
from crosshair.core import deep_realize, realize
from crosshair.libimpl import builtinslib as bl
from crosshair.tracers import NoTracing, ResumedTracing, frame_stack_read, frame_stack_write

BytesLike = bl.BytesLike
_MISSING = bl._MISSING


# --- bytes.split(sep, maxsplit) ------------------------------------------------------------
def _split(self, sep=None, maxsplit=-1):
    if sep is None:
        return self.data.split(sep, maxsplit)
    if len(sep) == 0:
        raise ValueError("empty separator")
    out = []
    rest = self
    while maxsplit != 0:
        idx = rest.find(sep)
        if idx < 0:
            break
        out.append(rest[:idx])
        rest = rest[idx + len(sep):]
        maxsplit -= 1
    out.append(rest)
    return out


BytesLike.split = _split


# --- symbolic bytes.splitlines (stock version realises through .data and fails on a symbolic slice length) -------
def _splitlines(self, keepends=False):
    out = []
    n = len(self)
    i = 0
    start = 0
    while i < n:
        c = self[i]
        if c == 10:
            nxt = i + 1
        elif c == 13:
            nxt = i + 2 if (i + 1 < n and self[i + 1] == 10) else i + 1
        else:
            i += 1
            continue
        out.append(self[start:nxt] if keepends else self[start:i])
        start = nxt
        i = nxt
    if start < n:
        out.append(self[start:n])
    return out


BytesLike.splitlines = _splitlines


# --- int(symbolic bytes / str, base) -------------------------------------------------------
def _digit_val(c):
    if 48 <= c <= 57:
        return c - 48
    if 97 <= c <= 102:
        return c - 87
    if 65 <= c <= 70:
        return c - 55
    return -1


def _int(val=0, base=_MISSING):
    with NoTracing():
        if isinstance(val, bl.SymbolicInt):
            if base is not _MISSING:
                raise TypeError("int() can't convert non-string with explicit base")
            return val
        is_str = isinstance(val, bl.AnySymbolicStr)
        is_sb = isinstance(val, BytesLike)
        cbase = base if base is _MISSING or type(base) is int else None
    if (is_str or is_sb) and cbase is not None:
        b = 10 if cbase is _MISSING else cbase
        pts = val._ch_codepoints if is_sb else [ord(ch) for ch in val]
        if b in (10, 16) and len(pts) > 0:
            ret = 0
            ok = True
            for c in pts:
                d = _digit_val(c)
                if any([d < 0, d >= b]):
                    ok = False
                    break
                ret = ret * b + d
            if ok:
                return ret
    with NoTracing():
        val = deep_realize(val)
        base = deep_realize(base)
        return int(val) if base is _MISSING else int(val, base)


core._PATCH_REGISTRATIONS[builtins.int] = _int


# --- `symbolic_int in concrete_bytes` ------------------------------------------------------
class _IntInBytes:
    def __init__(self, container):
        vals = sorted(set(container))
        runs = []
        for v in vals:
            if runs and runs[-1][1] == v - 1:
                runs[-1][1] = v
            else:
                runs.append([v, v])
        self.runs = runs

    def __contains__(self, item):
        return any([lo <= item <= hi for lo, hi in self.runs])


_orig_trace_op = oi.ContainmentInterceptor.trace_op


def _trace_op(self, frame, codeobj, codenum):
    item = frame_stack_read(frame, -2)
    if isinstance(item, bl.SymbolicInt):
        container = frame_stack_read(frame, -1)
        if type(container) is bytes:
            frame_stack_write(frame, -1, _IntInBytes(container))
            return
    return _orig_trace_op(self, frame, codeobj, codenum)


oi.ContainmentInterceptor.trace_op = _trace_op


# --- str(symbolic_bytes, encoding[, errors]) -----------------------------------------------
def _str(*a, **kw):
    with NoTracing():
        if len(a) == 1 and not kw:
            (self,) = a
            if isinstance(self, bl.AnySymbolicStr):
                return self
            with ResumedTracing():
                return bl.invoke_dunder(self, "__str__")
        sb = len(a) >= 2 and not kw and isinstance(a[0], BytesLike)
    if sb:
        return codecs.decode(a[0], *a[1:])
    with NoTracing():
        return str(*[deep_realize(x) for x in a], **{k: deep_realize(v) for k, v in kw.items()})


core._PATCH_REGISTRATIONS[builtins.str] = _str


# --- "fmt" % args --------------------------------------------------------------------------
_FMT_RE = _re.compile(r"%(?:\((?P<key>[^)]*)\))?(?P<conv>[sdXxr%])")


def _percent_format(self, other):
    with NoTracing():
        simple = type(self) is str and "%" in self and _re.sub(_FMT_RE, "", self).find("%") < 0
    if not simple:
        with NoTracing():
            return realize(self).__mod__(deep_realize(other))
    parts = []
    pos = 0
    argi = 0
    with NoTracing():
        is_tuple = isinstance(other, tuple)
    is_map = (not is_tuple) and hasattr(other, "keys")
    args = other if is_tuple else (other,)
    for m in _FMT_RE.finditer(self):
        parts.append(self[pos:m.start()])
        pos = m.end()
        conv = m.group("conv")
        if conv == "%":
            parts.append("%")
            continue
        key = m.group("key")
        if key is not None:
            if not is_map:
                raise TypeError("format requires a mapping")
            val = other[key]
        else:
            if argi >= len(args):
                raise TypeError("not enough arguments for format string")
            val = args[argi]
            argi += 1
        if conv == "s":
            parts.append(str(val))
        elif conv == "r":
            parts.append(repr(val))
        else:
            with NoTracing():
                v = realize(val)
                piece = ("%" + conv) % v
            parts.append(piece)
    parts.append(self[pos:])
    if not is_map and argi != len(args):
        raise TypeError("not all arguments converted during string formatting")
    return "".join(parts)


core._PATCH_REGISTRATIONS[builtins.str.__mod__] = _percent_format


# --- differential self-test against CPython -------------------------------------------------
def selftest():
    """Run every replaced operation on concrete values wrapped as CrossHair symbolic containers and
    compare with CPython over an exhaustive small domain.  Returns (cases, mismatches)."""
    import itertools
    from crosshair.core_and_libs import standalone_statespace
    from crosshair.libimpl.builtinslib import SymbolicBytes, LazyIntSymbolicStr

    alpha = [0x0d, 0x0a, 0x3b, 0x20, 0x09, 0x30, 0x41, 0x66, 0x67, 0x25, 0x00, 0xff]
    domain = [bytes(t) for n in range(0, 3) for t in itertools.product(alpha, repeat=n)]
    seps = [b"\r\n", b";", b" ", b","]
    cases = 0
    bad = []
    with standalone_statespace:
        with ResumedTracing():
            for d in domain:
                sb = SymbolicBytes(list(d))
                for sep in seps:
                    for n in (-1, 1, 2):
                        got = [bytes(realize(p)) for p in sb.split(sep, n)]
                        cases += 1
                        if got != d.split(sep, n):
                            bad.append(("split", d, sep, n, got))
                for keep in (False, True):
                    got = [bytes(realize(p)) for p in sb.splitlines(keep)]
                    cases += 1
                    if got != d.splitlines(keep):
                        bad.append(("splitlines", d, keep, got))
                for base in (10, 16):
                    try:
                        want = int(d, base)
                    except ValueError:
                        want = "ValueError"
                    try:
                        got = realize(int(sb, base))
                    except ValueError:
                        got = "ValueError"
                    cases += 1
                    if got != want:
                        bad.append(("int", d, base, got, want))
                got = realize(str(sb, "latin1"))
                cases += 1
                if got != str(d, "latin1"):
                    bad.append(("str", d, got))
                s = d.decode("latin1")
                ss = LazyIntSymbolicStr(list(d))
                for fmt, mk in (("a%sb", lambda x: x), ("%s %s", lambda x: (x, "q")),
                                ("<%(k)s>%%", lambda x: {"k": x}), ("%d:%s", lambda x: (7, x)),
                                ("%X\r\n", lambda x: len(x)), ("%r", lambda x: (x,))):
                    want = fmt % mk(s)
                    got = realize(fmt % mk(ss))
                    cases += 1
                    if got != want:
                        bad.append(("fmt", fmt, s, got, want))
            for n in range(3, 5):
                for t in itertools.product([0x0d, 0x0a, 0x41, 0x0b, 0x0c, 0x1c, 0x85], repeat=n):
                    d = bytes(t)
                    sb = SymbolicBytes(list(d))
                    for keep in (False, True):
                        got = [bytes(realize(p)) for p in sb.splitlines(keep)]
                        cases += 1
                        if got != d.splitlines(keep):
                            bad.append(("splitlines", d, keep, got))
            import urllib.parse as up
            ualpha = [0x25, 0x34, 0x31, 0x67, 0x46, 0x61, 0xe9, 0x2f]
            for n in range(0, 5):
                for t in itertools.product(ualpha, repeat=n):
                    d = bytes(t)
                    got = bytes(realize(up.unquote_to_bytes(SymbolicBytes(list(d)))))
                    cases += 1
                    if got != _up_unquote_to_bytes_orig(d):
                        bad.append(("unquote", d, got))
            for v in range(256):
                for cont in (b"0123456789abcdefABCDEF", b" \t", b"\0\r\n"):
                    got = v in _IntInBytes(cont)
                    cases += 1
                    if got != (v in cont):
                        bad.append(("in", v, cont))
    return cases, bad


# --- urllib.parse.unquote_to_bytes (stdlib looks the two hex digits up in a dict keyed by bytes: realises) -------
import urllib.parse as _up  # noqa: E402


def _unquote_to_bytes(string):
    with NoTracing():
        symbolic = isinstance(string, (BytesLike, bl.AnySymbolicStr))
    if not symbolic:
        with NoTracing():
            return _up_unquote_to_bytes_orig(deep_realize(string))
    if isinstance(string, str):
        string = string.encode("utf-8")
    pts = string._ch_codepoints if isinstance(string, BytesLike) else list(string)
    n = len(pts)
    out = []
    i = 0
    while i < n:
        c = pts[i]
        if c == 37 and i + 2 < n + 0 and i + 2 <= n - 1:
            h1 = _digit_val(pts[i + 1])
            h2 = _digit_val(pts[i + 2])
            if all([h1 >= 0, h2 >= 0]):
                out.append(h1 * 16 + h2)
                i += 3
                continue
        out.append(c)
        i += 1
    with NoTracing():
        return bl.SymbolicBytes(out)


_up_unquote_to_bytes_orig = _up.unquote_to_bytes
core._PATCH_REGISTRATIONS[_up.unquote_to_bytes] = _unquote_to_bytes


if __name__ == "__main__":
    import sys
    n, bad = selftest()
    print("ch_ext selftest: %d cases, %d mismatches" % (n, len(bad)))
    for b in bad[:10]:
        print("  MISMATCH", b)
    sys.exit(3 if bad else 0)

"""Print a markdown table of every obligation (for DESIGN.md section 4b)."""
import importlib
import sys
sys.path.insert(0, "/repo")
sys.path.insert(0, "/verif")
rows = []
for i in range(1, 21):
    pid = "C%02d" % i
    try:
        m = importlib.import_module("harness.c%02d" % i)
    except Exception as e:
        rows.append("| %s | (import failed: %r) | | | |" % (pid, e))
        continue
    for ob in m.OBLIGATIONS:
        def n(t):
            c = ob.cases[t] if isinstance(ob.cases, dict) else ob.cases
            return len(c) if t in ob.tiers else 0
        rows.append("| %s | `%s` | %s | %s | %d / %d | %s |" % (ob.id, ob.fn, "z3-direct" if getattr(ob, "smt", None) else "CrossHair",
                                                              "twin (must be refuted)" if ob.expect == "refute" else "confirm",
                                                              n("quick"), n("thorough"), ob.bound.replace("|", "/")))
print("| obligation | harness fn | engine | expectation | cases quick / thorough | bound |")
print("|---|---|---|---|---|---|")
print("\n".join(rows))

"""C10 - reload (HUP) replaces every worker without closing the listening socket (master's decision logic).

Kernel: the real Arbiter.run() -> handle_hup -> reload() -> setup()/spawn_worker()/manage_workers() (+ the following
loop iterations with reap/murder/manage) against the simulated kernel; app.reload() installs a solver-chosen new
configuration (worker count, same/different bind address, pid file same/different/none).
The client-visible half ("a request an old worker started reading is answered in full") is the worker-side TERM
obligation C04.sync_term / C04.gthread_term.
"""
import signal
from types import SimpleNamespace
from typing import List

from engine.harness_api import Ob, setup, pick, ns
setup(shim=False)

import gunicorn.arbiter as A  # noqa: E402
from engine.stubs import kernel as KS  # noqa: E402
from harness.c03 import mk_arbiter, STATUS_SET  # noqa: E402

PROPERTY = "C10"
CASE = {}
KERNELS = ["gunicorn.app.base:BaseApplication.reload", "gunicorn.app.base:BaseApplication.do_load_config",
           "gunicorn.app.base:Application.load_config", "gunicorn.app.base:Application.chdir", "gunicorn.arbiter:Arbiter.reload", "gunicorn.arbiter:Arbiter.handle_hup", "gunicorn.arbiter:Arbiter.setup",
           "gunicorn.arbiter:Arbiter.spawn_worker", "gunicorn.arbiter:Arbiter.manage_workers",
           "gunicorn.arbiter:Arbiter.kill_worker", "gunicorn.arbiter:Arbiter.reap_workers",
           "gunicorn.arbiter:Arbiter.murder_workers", "gunicorn.arbiter:Arbiter.run"]
STUBS = ["simulated kernel (engine/stubs/kernel.py)", "app.reload() -> installs the new cfg namespace",
         "listeners -> recording objects; sock.create_sockets recorded; Pidfile -> recorder; log/hooks -> no-ops"]
ASSUMPTIONS = ["old workers exit (status 0) by the next sleep after TERM", "one HUP (thorough: two)"]
OUTSIDE = ["real concurrent clients / kernel accept queue", "gevent/eventlet", "the application-level effect of the new config"]


class Lsn:
    def __init__(self, name):
        self.name = name
        self.closed = 0

    def close(self):
        self.closed += 1

    def __str__(self):
        return str(self.name)


class PidRec:
    log = []

    def __init__(self, fname):
        self.fname = fname

    def create(self, pid):
        PidRec.log.append(("create", self.fname, pid))

    def unlink(self):
        PidRec.log.append(("unlink", self.fname))


from engine.stubs import workers as W  # noqa: E402


class CfgView:
    """the real Config (bind parsing, address property, workers, pidfile ...) with the process-level hooks and the worker
    class replaced"""

    def __init__(self, real, **over):
        self.__dict__["_real"] = real
        self.__dict__["_over"] = over

    def __getattr__(self, name):
        over = self.__dict__["_over"]
        if name in over:
            return over[name]
        return getattr(self.__dict__["_real"], name)


BINDS = ["127.0.0.1:8000", "tcp://127.0.0.1:8000", "127.0.0.1:9000", "LOCALHOST:8000", "localhost:8000"]


def mk_cfg(workers, bind, pidfile, K):
    hook = lambda *a, **k: None  # noqa: E731
    real = W.make_cfg(workers=workers, bind=[bind], daemon=bool(CASE.get("winch")), **({"pidfile": pidfile} if pidfile else {}))
    return CfgView(real, pre_fork=hook, nworkers_changed=hook, worker_exit=hook, child_exit=hook, on_exit=hook,
                   on_reload=hook, worker_class=KS.worker_class(K), env={}, env_orig={}, logger_class=None,
                   settings={}, preload_app=False, proc_name="g")


def reload_(k: int, w2: int, bi: int, pf: int, tape: List[int], st: List[int], hups: int, wrap: bool) -> bool:
    """
    pre: k == CASE["k"] and 1 <= w2 <= 3 and 0 <= pf <= 2 and 1 <= hups <= CASE["hups"] and bi == CASE["bi"]
    pre: wrap == CASE["wrap"]
    pre: len(tape) <= CASE["tape"] and all(0 <= e <= 3 for e in tape)
    pre: len(st) <= CASE["tape"] and all(0 <= s <= 1 for s in st)
    post: __return__
    """
    k, bi, wrap = CASE["k"], CASE["bi"], CASE["wrap"]
    w2, pf, hups = pick(w2, 1, 3), pick(pf, 0, 2), pick(hups, 1, CASE["hups"])
    sigs = [int(signal.SIGHUP)] * hups
    if CASE.get("winch"):
        sigs = [int(signal.SIGWINCH)] + sigs          # daemonised master told to retire its workers, then reloaded
    K = KS.Kernel(tape=tape, statuses=[STATUS_SET[s] for s in st], master_signals=sigs,
                  budget=len(sigs) + len(tape) + 4)
    K.deaf_first_term = bool(CASE.get("deaf"))
    if wrap:
        K.next_pid = 32760                # the old generation got high pids ...
    arb = mk_arbiter(K, k, timeout=30, ages=list(range(1, k + 1)))
    if wrap:
        K.next_pid = 300                  # ... the pid counter wrapped around before the reload
    # the new configuration may spell the same address differently (scheme prefix, host case)
    same_addr = bi in (0, 1, 3)           # identical / scheme prefix / host case: the same listening address
    old_pf = [None, "/run/a.pid", "/run/a.pid"][pf]
    new_pf = [None, "/run/a.pid", "/run/b.pid"][pf]
    old_bind = "LOCALHOST:8000" if bi == 3 else BINDS[0]
    new_bind = "localhost:8000" if bi == 3 else BINDS[bi]
    arb.cfg = mk_cfg(k, old_bind, old_pf, K)
    arb.setup(SimpleNamespace(cfg=arb.cfg, wsgi=lambda: None))      # the master's view of its configuration, as after start
    new_cfg = mk_cfg(w2, new_bind, new_pf, K)
    arb.app = SimpleNamespace(cfg=arb.cfg)

    def app_reload():
        arb.app.cfg = new_cfg
    arb.app.reload = app_reload
    lsn = [Lsn(("127.0.0.1", 8000))]
    arb.LISTENERS = list(lsn)
    PidRec.log = []
    arb.pidfile = PidRec(old_pf) if old_pf else None
    created = []
    old_pids = list(K.order)
    max_old_age = k
    undo = KS.install(A, K)
    saved_pid = A.Pidfile

    def create_sockets(cfg, log, fds=None):
        l2 = [Lsn(a) for a in cfg.address]
        created.append(l2)
        return l2
    A.sock = ns("A.sock", create_sockets=create_sockets, close_sockets=lambda l, u=True: None)
    A.Pidfile = PidRec
    code = None
    try:
        try:
            arb.run()
        except KS.LoopBudget:
            pass
        except SystemExit as e:
            code = e.code
    finally:
        undo()
        A.Pidfile = saved_pid
    if code is not None:
        return False
    if K.tape or K.master_signals:
        return True
    # 1. listeners
    if same_addr:
        if created or lsn[0].closed or arb.LISTENERS != lsn or arb.LISTENERS[0] is not lsn[0]:
            return False
    else:
        if len(created) != 1 or lsn[0].closed != 1 or arb.LISTENERS is not created[0] and arb.LISTENERS != created[0]:
            return False
    # 2. new generation is forked before any old worker is signalled
    first_kill = None
    forks_before = 0
    for ev in K.events:
        if ev[0] == "kill" and ev[1] in old_pids:
            first_kill = ev
            break
        if ev[0] == "fork" and ev[1] not in old_pids:
            forks_before += 1
    if first_kill is not None and forks_before < w2 and not CASE.get("winch"):
        return False                      # (after WINCH the old workers were retired on purpose before the reload)
    # 3. old workers are asked with TERM only
    for ev in K.events:
        if ev[0] == "kill" and ev[1] in old_pids and ev[2] != int(signal.SIGTERM):
            return False
    # 4. afterwards: exactly the new number, all started after the reload, all tracked, nothing unreaped
    live = [p for p in K.order if K.procs.get(p) == "alive"]
    if len(live) != w2 or set(arb.WORKERS) != set(live) or K.zombies():
        return False
    for p in live:
        if p in old_pids or not arb.WORKERS[p].age > max_old_age:
            return False
    if arb.num_workers != w2 or arb.cfg is not new_cfg:
        return False
    # 5. pid file follows the configuration
    if pf == 0:
        return PidRec.log == []
    want = []
    for _ in range(hups):
        pass
    ok_unlink = ("unlink", old_pf) in PidRec.log
    ok_create = ("create", new_pf, 1) in PidRec.log
    if not (ok_unlink and ok_create):
        return False
    # the old file is released before the new one is created (Pidfile.create does nothing when the path already names us,
    # and the old object's unlink() would then remove the file the master is supposed to keep)
    return PidRec.log.index(("unlink", old_pf)) < PidRec.log.index(("create", new_pf, 1))


# ---- config re-load (app/base.py): the master must survive a HUP whatever the configured working directory ---------------
import gunicorn.app.base as B  # noqa: E402
from argparse import Namespace  # noqa: E402
from gunicorn.config import Config  # noqa: E402


def reload_config(w1: int, w2: int, rel: bool, has_chdir: bool, nreload: int) -> bool:
    """
    pre: 1 <= w1 <= 3 and 1 <= w2 <= 3 and 1 <= nreload <= 2
    post: __return__
    """
    # real Application.reload -> do_load_config -> load_config -> chdir(); the config file is named relative to the
    # directory gunicorn was started in (or absolutely) and may itself set `chdir`
    w1, w2, nreload = pick(w1, 1, 3), pick(w2, 1, 3), pick(nreload, 1, 2)
    with W._untraced():
        start = Config().chdir                 # the directory the master was started in
    state = {"cwd": start, "workers": w1}
    fname = "conf.py" if rel else start.rstrip("/") + "/conf.py"

    def resolve(p):
        return p if p.startswith("/") else state["cwd"].rstrip("/") + "/" + p

    class App(B.Application):
        def __init__(self_):
            self_.usage = self_.prog = self_.callable = self_.logger = None
            self_.cfg = None

        def init(self_, parser, opts, args):
            return {}

        def get_config_from_filename(self_, filename):
            if not B.os.path.exists(filename):
                raise RuntimeError("%r doesn't exist" % filename)
            d = {"workers": state["workers"]}
            if has_chdir:
                d["chdir"] = "/app"
            return d
    cli = Namespace(args=[], config=fname)
    env = Namespace(args=[], config=None)
    saved = (Config.parser, Config.get_cmd_args_from_env, B.os, B.sys, B.get_default_config_file)

    class P:
        def parse_args(self_, a=None):
            return cli if a is None else env
    Config.parser = lambda self_: P()
    Config.get_cmd_args_from_env = lambda self_: []
    real_os = saved[2]
    B.os = ns("B.os", chdir=lambda p: state.__setitem__("cwd", resolve(p)),
              path=ns("B.os.path", exists=lambda f: resolve(f) == start.rstrip("/") + "/conf.py" or resolve(f) == "/app",
                      splitext=real_os.path.splitext, abspath=lambda p: resolve(p), isdir=lambda p: True,
                      basename=real_os.path.basename, dirname=real_os.path.dirname, join=real_os.path.join),
              environ=real_os.environ, getcwd=lambda: state["cwd"])
    B.sys = ns("B.sys", stderr=ns("stderr", write=lambda s_: None, flush=lambda: None), path=[], exit=real_exit,
               argv=["gunicorn"], exc_info=lambda: (None, None, None))
    B.get_default_config_file = lambda: None
    app = App()
    try:
        try:
            app.do_load_config()
            if app.cfg.workers != w1:
                return False
            for _ in range(nreload):
                state["workers"] = w2            # the operator edits the file, then sends HUP
                app.reload()
        except SystemExit:
            return False                         # the master would die on HUP
    finally:
        Config.parser, Config.get_cmd_args_from_env, B.os, B.sys, B.get_default_config_file = saved
    return app.cfg.workers == w2 and state["cwd"] == ("/app" if has_chdir else start)


def reload_broken(cliw: int, how: int, nreload: int) -> bool:
    """
    pre: 2 <= cliw <= 4 and 0 <= how <= 2 and 1 <= nreload <= 2
    post: __return__
    """
    # the operator breaks the config file and sends HUP.  "A value a setting's validator rejects stops startup with an
    # error": reload() may stop the master (SystemExit) - what it must never do is come back with a configuration in which
    # the sources that did load (here: the command line's --workers) are missing, because the next generation of workers
    # would be started from it (with the master's own user/group, the default bind, ...)
    cliw, how, nreload = pick(cliw, 2, 4), pick(how, 0, 2), pick(nreload, 1, 2)
    state = {"broken": False}

    class App(B.Application):
        def __init__(self_):
            self_.usage = self_.prog = self_.callable = self_.logger = None
            self_.cfg = None

        def init(self_, parser, opts, args):
            return {}

        def chdir(self_):
            pass

        def get_config_from_filename(self_, filename):
            if state["broken"]:
                if how == 0:
                    raise RuntimeError("%r doesn't exist" % filename)
                if how == 1:
                    return {"timeout": -5}                      # rejected by the validator
                return {"keepalive": "soon"}                    # not a number
            return {"timeout": 40}
    cli = Namespace(args=[], config="conf.py", workers=cliw)
    env = Namespace(args=[], config=None)
    saved = (Config.parser, Config.get_cmd_args_from_env, B.sys, B.get_default_config_file)

    class P:
        def parse_args(self_, a=None):
            return cli if a is None else env
    Config.parser = lambda self_: P()
    Config.get_cmd_args_from_env = lambda self_: []
    B.sys = ns("B.sys", stderr=ns("stderr", write=lambda s_: None, flush=lambda: None), path=[], exit=real_exit,
               argv=["gunicorn"], exc_info=lambda: (None, None, None))
    B.get_default_config_file = lambda: None
    app = App()
    try:
        app.do_load_config()
        if app.cfg.workers != cliw or app.cfg.timeout != 40:
            return False
        state["broken"] = True
        for _ in range(nreload):
            try:
                app.reload()
            except SystemExit as e:
                return e.code not in (0, None)                   # the master stops, with an error status
            except Exception:
                return False
            if app.cfg.workers != cliw:
                return False
    finally:
        Config.parser, Config.get_cmd_args_from_env, B.sys, B.get_default_config_file = saved
    return True


def real_exit(code=0):
    raise SystemExit(code)


def reload_twin(k: int, w2: int, bi: int, pf: int, tape: List[int], st: List[int], hups: int, wrap: bool) -> bool:
    """
    pre: k == CASE["k"] and 1 <= w2 <= 3 and 0 <= pf <= 2 and 1 <= hups <= CASE["hups"] and bi == CASE["bi"]
    pre: wrap == CASE["wrap"]
    pre: len(tape) <= CASE["tape"] and all(0 <= e <= 3 for e in tape)
    pre: len(st) <= CASE["tape"] and all(0 <= s <= 1 for s in st)
    post: __return__
    """
    if not (k == 2 and w2 == 1 and bi == 1 and len(tape) == 0 and wrap):
        return True
    return not reload_(k, w2, bi, pf, tape, st, hups, wrap)


def _cases(ks, tape, hups):
    out = [{"k": k, "bi": bi, "wrap": wrap, "tape": tape, "hups": hups} for k in ks for bi in range(5) for wrap in (False, True)
           if not (k == 0 and wrap)]
    # workers that lose the first SIGTERM they are sent (still booting when a second HUP / the retirement arrives)
    out += [{"k": k, "bi": 0, "wrap": False, "tape": 0, "hups": 2, "deaf": True} for k in ks if k]
    out += [{"k": k, "bi": 0, "wrap": False, "tape": 0, "hups": 1, "winch": True} for k in ks if k]
    return out


OBLIGATIONS = [
    Ob("C10.reload", "reload_", cases={"quick": _cases((0, 1, 2), 1, 1), "thorough": _cases((0, 1, 2, 3), 2, 2)},
       timeout={"quick": 600, "thorough": 3000},
       bound="old pool 0..2 (thorough 3) workers, new workers 1..3, new bind = same / same with tcp:// prefix / other port / same "
             "with different host case / other host name (real Config parsing), pid counter wrapped or not, pid file none/same/different, "
             "crash tape <=1 (2) over every kill/sleep boundary, 1 (2) HUPs, 4 quiet loops"),
    Ob("C10.reload_config", "reload_config", timeout=600,
       bound="real Application.reload/load_config/chdir: config file named relatively or absolutely, setting chdir or not, "
             "workers 1..3 -> 1..3, one or two reloads"),
    Ob("C10.reload_broken", "reload_broken", timeout=300,
       bound="real Application.reload with a config file that became unreadable / carries a value the validator rejects / a value of "
             "the wrong type, --workers 2..4 on the command line, one or two reloads: stops with an error or keeps every source"),
    Ob("C10.reload.twin", "reload_twin", cases=[{"k": 2, "bi": 1, "wrap": True, "tape": 1, "hups": 1}], expect="refute", timeout=300),
]

"""C16 - configuration sources are merged in the documented order of authority.

  1 merge   the real Application.load_config / load_config_from_module_name_or_filename / Config.set / validators with
            the argparse results (command line, GUNICORN_CMD_ARGS) and the config-file / framework dictionaries supplied by
            the solver: effective value = validator(value of the most authoritative source that mentions the setting);
            settings nobody mentions keep their defaults; an invalid value anywhere stops startup (exception)
  2 table   for EVERY setting with a command-line option: the real Setting.add_option on a real ArgumentParser yields None
            when the flag is absent (that is what makes "a source does not mention it" observable), and a value otherwise
"""
from argparse import Namespace
from typing import Optional

from engine.harness_api import Ob, setup, pick
setup(shim=False)

import gunicorn.app.base as B  # noqa: E402
from gunicorn.app.base import Application  # noqa: E402
from gunicorn.config import Config, KNOWN_SETTINGS  # noqa: E402
import argparse  # noqa: E402

PROPERTY = "C16"
CASE = {}
KERNELS = ["gunicorn.config:Config.get_cmd_args_from_env", "gunicorn.app.base:Application.load_config", "gunicorn.app.base:Application.load_config_from_module_name_or_filename",
           "gunicorn.app.base:Application.load_config_from_file", "gunicorn.config:Config.set", "gunicorn.config:Setting.set",
           "gunicorn.config:Setting.add_option", "gunicorn.config:validate_pos_int", "gunicorn.config:validate_bool",
           "gunicorn.config:validate_string", "gunicorn.config:validate_list_string"]
STUBS = ["Config.parser() -> object whose parse_args() returns the solver-chosen namespaces (argv parsing itself is argparse's)",
         "get_config_from_filename -> solver-chosen dict (no file is read)", "Application.init -> solver-chosen framework dict; chdir no-op"]
ASSUMPTIONS = ["argparse delivers None for an option that was not given (checked for every setting by obligation 2)"]
OUTSIDE = ["argparse / shlex parsing of argv strings", "importing a real config file", "settings other than the four kinds in obligation 1"]


from engine.stubs.workers import _untraced  # noqa: E402


class FakeParser:
    def __init__(self, cli, env):
        self.cli = cli
        self.env = env

    def parse_args(self, args=None):
        return self.cli if args is None else self.env


def ns(**kw):
    base = {"args": [], "config": None}
    base.update(kw)
    return Namespace(**base)


class App(Application):
    def __init__(self, cli, env, filecfg, fw):
        self._cli, self._env, self._file, self._fw = cli, env, filecfg, fw
        self.usage = self.prog = self.callable = self.logger = None
        with _untraced():
            self.cfg = Config()            # a fresh one per run (load_config mutates it); built outside the tracer

    def init(self, parser, opts, args):
        return self._fw

    def chdir(self):
        pass

    def get_config_from_filename(self, filename):
        return dict(self._file)


def run_merge(name, cli, env, filev, fw, file_loc="cli"):
    """-> effective value of setting `name`, or "error" """
    cli_ns = ns(**{name: cli, "config": "x.py" if file_loc == "cli" else None})
    env_ns = ns(**{name: env, "config": "y.py" if file_loc == "env" else None})
    # a config file is a Python module: it may define other names - unknown ones and ones that only differ from a setting
    # by case are not settings and must not touch anything
    junk = {"not_a_setting": 1, "TIMEOUT": 5, "Threads": 7, "KEEPALIVE": 99}
    app = App(cli_ns, env_ns, dict(junk) if filev is ABSENT else dict(junk, **{name: filev}),
              {} if fw is ABSENT else {name: fw})
    saved = (Config.parser, Config.get_cmd_args_from_env, B.get_default_config_file, B.sys)
    B.sys = _QUIET_SYS
    Config.parser = lambda self: FakeParser(cli_ns, env_ns)
    Config.get_cmd_args_from_env = lambda self: ["--from-env"]
    B.get_default_config_file = lambda: None
    try:
        try:
            app.load_config()
        except (ValueError, TypeError):
            return "error", app
        return getattr(app.cfg, name), app
    finally:
        Config.parser, Config.get_cmd_args_from_env, B.get_default_config_file, B.sys = saved


class _Null:
    def write(self, s):
        pass

    def flush(self):
        pass


import sys as _sys  # noqa: E402
import types as _types  # noqa: E402
_QUIET_SYS = _types.SimpleNamespace(stderr=_Null(), stdout=_sys.stdout, exit=_sys.exit, path=_sys.path, modules=_sys.modules,
                                    argv=_sys.argv, exc_info=_sys.exc_info)


class _Absent:
    def __repr__(self):
        return "ABSENT"


ABSENT = _Absent()


def expected(default, sources, validate):
    """sources in increasing authority; each ABSENT/None (= not mentioned) or a value"""
    want = default
    for v in sources:
        if v is ABSENT or v is None:
            continue
        try:
            want = validate(v)
        except (ValueError, TypeError):
            return "error"
    return want


_DEFAULTS = Config()


def others_untouched(app, name):
    d = _DEFAULTS
    for k in ("threads", "timeout", "keepalive", "workers", "reload", "proc_name", "bind"):
        if k != name and getattr(app.cfg, k) != getattr(d, k):
            return False
    return True


def merge_int(cli: Optional[int], env: Optional[int], filev: Optional[int], fw: Optional[int], loc: bool) -> bool:
    """
    pre: all(v is None or -2 <= v <= 50 for v in (cli, env, filev, fw))
    post: __return__
    """
    got, app = run_merge("workers", cli, env, ABSENT if filev is None else filev, ABSENT if fw is None else fw,
                         "cli" if loc else "env")

    def val(v):
        if v < 0:
            raise ValueError
        return v
    want = expected(1, [fw, filev, env, cli], val)
    return got == want and (got == "error" or others_untouched(app, "workers"))


FILE_BOOL = [ABSENT, True, False, "true", "False", " TRUE ", "yes", 1, 0, 1.0]


def merge_bool(cli: bool, env: bool, fi: int, wi: int) -> bool:
    """
    pre: 0 <= fi <= 9 and 0 <= wi <= 9
    post: __return__
    """
    fi, wi = pick(fi, 0, 9), pick(wi, 0, 9)
    c = True if cli else None            # a store_true flag can only say True or nothing
    e = True if env else None
    got, app = run_merge("reload", c, e, FILE_BOOL[fi], FILE_BOOL[wi])

    def val(v):
        if isinstance(v, bool):
            return v
        if not isinstance(v, str):
            raise TypeError
        s = v.lower().strip()
        if s == "true":
            return True
        if s == "false":
            return False
        raise ValueError
    want = expected(False, [FILE_BOOL[wi], FILE_BOOL[fi], e, c], val)
    return got == want and (got == "error" or others_untouched(app, "reload"))


SENDFILE_ENV = [None, "yes", "no", "Y", "off"]


def merge_sendfile(cli_no: bool, env_no: bool, fi: int, wi: int, ev: int) -> bool:
    """
    pre: 0 <= fi <= 9 and 0 <= wi <= 9 and 0 <= ev < len(SENDFILE_ENV)
    post: __return__
    """
    # sendfile: --no-sendfile can only say False; file / framework say anything a bool setting accepts; the SENDFILE
    # environment variable is the documented fallback "if not set" - below every source that mentions the setting.
    # The effective value is read through Config.sendfile, which is what Response.can_sendfile() consults.
    import os
    fi, wi, ev = pick(fi, 0, 9), pick(wi, 0, 9), pick(ev, 0, len(SENDFILE_ENV) - 1)
    c = False if cli_no else None
    e = False if env_no else None
    saved_env = os.environ.get("SENDFILE")
    try:
        if SENDFILE_ENV[ev] is None:
            os.environ.pop("SENDFILE", None)
        else:
            os.environ["SENDFILE"] = SENDFILE_ENV[ev]
        got, app = run_merge("sendfile", c, e, FILE_BOOL[fi], FILE_BOOL[wi])
    finally:
        if saved_env is None:
            os.environ.pop("SENDFILE", None)
        else:
            os.environ["SENDFILE"] = saved_env

    def val(v):
        if isinstance(v, bool):
            return v
        if not isinstance(v, str):
            raise TypeError
        s_ = v.lower().strip()
        if s_ == "true":
            return True
        if s_ == "false":
            return False
        raise ValueError
    fallback = True if SENDFILE_ENV[ev] is None else SENDFILE_ENV[ev].lower() in ("y", "1", "yes", "true")
    want = expected(fallback, [FILE_BOOL[wi], FILE_BOOL[fi], e, c], val)
    return got == want and (got == "error" or others_untouched(app, "sendfile"))


def merge_str(cli: Optional[str], env: Optional[str], filev: Optional[str], fw: Optional[str]) -> bool:
    """
    pre: all(v is None or len(v) <= CASE["n"] for v in (cli, env, filev, fw))
    post: __return__
    """
    got, app = run_merge("proc_name", cli, env, ABSENT if filev is None else filev, ABSENT if fw is None else fw)
    want = None
    for v in (fw, filev, env, cli):
        if v is not None:
            want = v.strip()
    # Config.proc_name falls back to default_proc_name when the setting is None
    if want is None:
        return got == app.cfg.settings["default_proc_name"].get()
    return got == want


BINDS = [None, ["a:1"], ["a:1", "b:2"], [" c:3 "]]
FILE_BINDS = [ABSENT, "a:1", ["b:2", "c:3"], [], " d:4 "]


def merge_list(ci: int, ei: int, fi: int, wi: int) -> bool:
    """
    pre: 0 <= ci <= 3 and 0 <= ei <= 3 and 0 <= fi <= 4 and 0 <= wi <= 4
    post: __return__
    """
    ci, ei, fi, wi = pick(ci, 0, 3), pick(ei, 0, 3), pick(fi, 0, 4), pick(wi, 0, 4)
    got, app = run_merge("bind", BINDS[ci], BINDS[ei], FILE_BINDS[fi], FILE_BINDS[wi])

    def val(v):
        if not v:
            return []
        if isinstance(v, str):
            v = [v]
        return [x.strip() for x in v]
    want = expected(_DEFAULTS.bind, [FILE_BINDS[wi], FILE_BINDS[fi], BINDS[ei], BINDS[ci]], val)
    return got == want


FILE_INT = [ABSENT, 1, 1.0, 3, "3", "0x10", 2.5, True, "x", -1]


def merge_int_file(fi: int, wi: int, cli: Optional[int]) -> bool:
    """
    pre: 0 <= fi <= 9 and 0 <= wi <= 9
    pre: cli is None or 0 <= cli <= 3
    post: __return__
    """
    fi, wi = pick(fi, 0, 9), pick(wi, 0, 9)
    got, app = run_merge("workers", cli, None, FILE_INT[fi], FILE_INT[wi])

    def val(v):
        if isinstance(v, bool):
            return int(v)
        if isinstance(v, int):
            if v < 0:
                raise ValueError
            return v
        if isinstance(v, str):
            r = int(v, 0)
            if r < 0:
                raise ValueError
            return r
        raise TypeError
    want = expected(1, [FILE_INT[wi], FILE_INT[fi], None, cli], val)
    return got == want


# ---- reload: every generation is merged from scratch ----------------------------------------------------------------------------
class App2(Application):
    """goes through the real BaseApplication.__init__ / do_load_config / reload; only the file reader, chdir and the argument
    parser are replaced"""

    def __init__(self, cli_ns, env_ns, files):
        self._cli, self._env, self._files = cli_ns, env_ns, files
        self.gen = 0
        Application.__init__(self)

    def init(self, parser, opts, args):
        return {}

    def chdir(self):
        pass

    def get_config_from_filename(self, filename):
        return dict(self._files[self.gen])


def reload_fresh(v1: Optional[int], v2: Optional[int], t1: Optional[int], cli: Optional[int]) -> bool:
    """
    pre: v1 is None or 1 <= v1 <= 4
    pre: v2 is None or 1 <= v2 <= 4
    pre: t1 is None or 1 <= t1 <= 4
    pre: cli is None or 1 <= cli <= 4
    post: __return__
    """
    # generation 1 of the config file mentions workers = v1 and timeout = t1 (None = not mentioned), generation 2 mentions
    # workers = v2 only; the command line may give workers.  After reload() nothing of generation 1 is left.
    cli_ns = ns(workers=cli, config="x.py")
    env_ns = ns(config=None)
    f1 = {}
    if v1 is not None:
        f1["workers"] = v1
    if t1 is not None:
        f1["timeout"] = t1
    f2 = {} if v2 is None else {"workers": v2}
    saved = (Config.parser, Config.get_cmd_args_from_env, B.get_default_config_file, B.sys)
    B.sys = _QUIET_SYS
    Config.parser = lambda self: FakeParser(cli_ns, env_ns)
    Config.get_cmd_args_from_env = lambda self: ["--from-env"]
    B.get_default_config_file = lambda: None
    try:
        with _untraced():
            pass
        app = App2(cli_ns, env_ns, [f1, f2])
        w1 = cli if cli is not None else (v1 if v1 is not None else 1)
        if app.cfg.workers != w1 or app.cfg.timeout != (t1 if t1 is not None else 30):
            return False
        app.gen = 1
        app.reload()
        w2 = cli if cli is not None else (v2 if v2 is not None else 1)
        return app.cfg.workers == w2 and app.cfg.timeout == 30 and others_untouched(app, "workers")
    finally:
        Config.parser, Config.get_cmd_args_from_env, B.get_default_config_file, B.sys = saved


def merge_twin(cli: Optional[int], env: Optional[int], filev: Optional[int], fw: Optional[int], loc: bool) -> bool:
    """
    pre: cli is not None and env is not None and filev is not None and fw is not None
    pre: 1 <= cli < env < filev < fw <= 8
    post: __return__
    """
    got, app = run_merge("workers", cli, env, ABSENT if filev is None else filev, ABSENT if fw is None else fw,
                         "cli" if loc else "env")
    # witness: all four sources mention it with different values and the command line wins
    return not (None not in (cli, env, filev, fw) and len({cli, env, filev, fw}) == 4 and got == cli)


ENVS = [("--workers 3", ["--workers", "3"]), ('--name "my app"', ["--name", "my app"]), ("--statsd-prefix ''", ["--statsd-prefix", ""]),
        ("--name my\\ app -w 2", ["--name", "my app", "-w", "2"]), ("", []), ("  --reload  ", ["--reload"]),
        ("--bind=unix:/tmp/a\\ b.sock", ["--bind=unix:/tmp/a b.sock"])]


def env_split(i: int) -> bool:
    """
    pre: 0 <= i < len(ENVS)
    post: __return__
    """
    # GUNICORN_CMD_ARGS is read like a shell command line (quotes group, backslash escapes), so that the value a setting gets
    # from this source is the one that was written there
    text, want = ENVS[pick(i, 0, len(ENVS) - 1)]
    with _untraced():
        cfg = Config()
    cfg.env_orig = {"GUNICORN_CMD_ARGS": text}
    return cfg.get_cmd_args_from_env() == want


# ---- 2. per-setting CLI table --------------------------------------------------------------------------------------------
CLI_SETTINGS = [s for s in KNOWN_SETTINGS if s.cli]


def cli_row(i: int) -> bool:
    """
    pre: 0 <= i < len(CLI_SETTINGS)
    post: __return__
    """
    i = pick(i, 0, len(CLI_SETTINGS) - 1)
    s = CLI_SETTINGS[i]()
    p = argparse.ArgumentParser(prog="x")
    p.add_argument("args", nargs="*")
    s.add_option(p)
    absent = p.parse_args([])
    if getattr(absent, s.name) is not None:
        return False                      # not given => None, whatever the action
    # given => not None (take a plausible operand for options that need one)
    flag = s.cli[-1]
    action = s.action or "store"
    if action in ("store_true", "store_false", "store_const"):
        argv = [flag]
    elif (s.type or str) is int or (s.type or str).__name__ in ("auto_int",):
        argv = [flag, "7"]
    else:
        argv = [flag, "v"]
    try:
        given = p.parse_args(argv)
    except SystemExit:
        return False
    return getattr(given, s.name) is not None


OBLIGATIONS = [
    Ob("C16.merge_int", "merge_int", timeout=900, bound="workers: each of 4 sources absent or an int in -2..50; config file named by CLI or env args"),
    Ob("C16.merge_int_file", "merge_int_file", timeout=900,
       bound="workers from config file / framework out of {absent, 1, 1.0, 3, '3', '0x10', 2.5, True, 'x', -1} + CLI absent or 0..3"),
    Ob("C16.reload_fresh", "reload_fresh", timeout=900,
       bound="real BaseApplication.__init__ + reload(): config file generation 1 (workers, timeout each absent or 1..4) replaced by "
             "generation 2 (workers absent or 1..4), command-line workers absent or 1..4"),
    Ob("C16.merge_int.twin", "merge_twin", expect="refute", timeout=120),
    Ob("C16.merge_bool", "merge_bool", timeout=900,
       bound="reload: CLI/env flag given or not; file/framework value from {absent, True, False, 'true', 'False', ' TRUE ', 'yes', 1, 0, 1.0}"),
    Ob("C16.merge_sendfile", "merge_sendfile", timeout=900,
       bound="sendfile through Config.sendfile: --no-sendfile on CLI / in GUNICORN_CMD_ARGS or not, file / framework from 10 values, "
             "SENDFILE environment variable unset or one of 4 spellings"),
    Ob("C16.merge_str", "merge_str", cases={"quick": [{"n": 1}], "thorough": [{"n": 2}]}, timeout={"quick": 900, "thorough": 2400},
       bound="proc_name: each of 4 sources absent or an arbitrary string of <=1 (thorough 2) characters"),
    Ob("C16.merge_list", "merge_list", timeout=900, bound="bind: CLI/env lists from 4 shapes, file/framework from 5 shapes (str, list, empty, padded)"),
    Ob("C16.env_split", "env_split", timeout=300, bound="7 GUNICORN_CMD_ARGS strings with quotes, empty strings, backslash escapes, padding"),
    Ob("C16.cli_table", "cli_row", timeout=900, bound="every setting of KNOWN_SETTINGS that has a command-line option (one row each)"),
]

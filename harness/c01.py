"""C01 - request framing is unambiguous and RFC 9112-exact (no smuggling).

Kernels driven directly (state constructed by the harness, DESIGN.md section 4/C01):
  1 framing decision        Request.set_body_reader / Message.set_body_reader
  2 chunk-size line         ChunkedReader.parse_chunk_size
  3 chunk data + terminator ChunkedReader.parse_chunked
  4 field line grammar      Message.parse_headers
  5 request line            Request.parse_request_line
  6 message boundary        LengthReader.read + Parser.__next__ drain
Direction: accepted by gunicorn => accepted by the strict reference with the same meaning.
"""
from types import SimpleNamespace
from typing import List

from engine.harness_api import Ob, setup, kf_ok, pick
setup(shim=True)

from gunicorn.http.body import Body, ChunkedReader, EOFReader, LengthReader  # noqa: E402
from gunicorn.http.errors import (  # noqa: E402
    ChunkMissingTerminator, InvalidChunkSize, InvalidHeader, InvalidHeaderName, InvalidHTTPVersion,
    InvalidRequestLine, InvalidRequestMethod, LimitRequestHeaders, NoMoreData, ObsoleteFolding,
    UnsupportedTransferCoding)
from gunicorn.http.message import Request  # noqa: E402
from gunicorn.http.parser import RequestParser  # noqa: E402
from gunicorn.http.unreader import IterUnreader  # noqa: E402
from oracles import rfc9112 as ref  # noqa: E402

from harness.lex import req_lex, req_lex_smt  # noqa: E402,F401  (z3-direct obligation C01.lex_smt)

PROPERTY = "C01"
USES_SHIM = True
CASE = {}

KERNELS = [
    "gunicorn.http.message:Message.set_body_reader", "gunicorn.http.message:Request.set_body_reader",
    "gunicorn.http.message:Message.parse_headers", "gunicorn.http.message:Request.parse_request_line",
    "gunicorn.http.body:ChunkedReader.parse_chunk_size", "gunicorn.http.body:ChunkedReader.parse_chunked",
    "gunicorn.http.body:ChunkedReader.parse_trailers", "gunicorn.http.body:ChunkedReader.read",
    "gunicorn.http.body:LengthReader.read", "gunicorn.http.body:Body.read",
    "gunicorn.http.parser:Parser.__next__", "gunicorn.http.unreader:Unreader.read",
    "gunicorn.http.unreader:Unreader.unread",
]
STUBS = ["io.BytesIO -> engine.shim.PyBytesIO inside gunicorn.http.{message,body,unreader} (symbolic runs only; "
         "validated on all repository request fixtures; replays use the real io.BytesIO)",
         "socket -> IterUnreader over a list of byte strings (the repository's own in-memory source)"]
ASSUMPTIONS = [
    "parser configuration: defaults (no permit_* / dangerous modes); header_map in {drop, refuse}",
    "header values handed to set_body_reader are what parse_headers can emit: codepoints < 256, no NUL/CR/LF, "
    "no leading/trailing SP/HTAB",
    "composition of the per-kernel obligations into whole-stream framing relies on Request.parse cutting only at "
    "CRLF / CRLFCRLF (checked separately by C06)",
]
OUTSIDE = ["fields longer than the per-obligation bound", "two fully symbolic fields interacting at once",
           "Transfer-Encoding without chunked (RFC says 400; property text does not list it; the repository's "
           "suite pins identity+Content-Length as accepted) is treated leniently",
           "content of chunk extensions and trailer fields beyond the field-line grammar"]


def CFG(**kw):
    d = dict(forwarded_allow_ips=["127.0.0.1"], secure_scheme_headers={}, forwarder_headers=[],
             strip_header_spaces=False, permit_obsolete_folding=False, header_map="drop",
             permit_unconventional_http_method=False, permit_unconventional_http_version=False,
             casefold_http_method=False, proxy_protocol=False, is_ssl=False,
             limit_request_line=4094, limit_request_fields=100, limit_request_field_size=8190)
    d.update(kw)
    return SimpleNamespace(**d)


def mk_req(headers=None, version=(1, 1), chunks=(), cfg=None):
    r = object.__new__(Request)
    r.cfg = cfg or CFG()
    r.unreader = IterUnreader(list(chunks))
    r.peer_addr = ("10.0.0.1", 1234)
    r.remote_addr = r.peer_addr
    r.version = version
    r.headers = headers if headers is not None else []
    r.trailers = []
    r.body = None
    r.scheme = "http"
    r.must_close = False
    r.limit_request_fields = 100
    r.limit_request_field_size = 8190
    r.max_buffer_headers = 100 * 8192 + 4
    r.limit_request_line = 4094
    r.req_number = 1
    r.proxy_protocol_info = None
    r.method = r.uri = r.path = r.query = r.fragment = None
    return r


def deliverable(v):
    """a header value parse_headers can emit"""
    n = len(v)
    for ch in v:
        c = ord(ch)
        if c > 255 or c == 0 or c == 10 or c == 13:
            return False
    if n and (v[0] == " " or v[0] == "\t" or v[n - 1] == " " or v[n - 1] == "\t"):
        return False
    return True


def decide(version, headers):
    """gunicorn's framing decision -> ("reject",) | ("chunked",) | ("length", n)"""
    r = mk_req(headers, version)
    try:
        r.set_body_reader()
    except (InvalidHeader, UnsupportedTransferCoding):
        return ("reject",), r
    rd = r.body.reader
    if isinstance(rd, ChunkedReader):
        return ("chunked",), r
    if isinstance(rd, LengthReader):
        return ("length", rd.length), r
    return ("eof",), r


def agree(got, want, headers):
    """accepted by gunicorn => same meaning under the reference"""
    if got[0] == "reject":
        return True
    if got[0] == "eof":
        return False                       # a request must never be framed "until close"
    if want == ref.REJECT:
        return False
    if got[0] == "chunked":
        return want == ("chunked",)
    # length n
    if want == ("chunked",):
        return False
    if want[0] == "length":
        return got[1] == want[1]
    if want == ("none",):
        return got[1] == 0
    # lenient (Transfer-Encoding without chunked): still demand n = the Content-Length given, or 0
    clv = None
    for name, value in headers:
        if name == "CONTENT-LENGTH":
            clv = ref.content_length_value(value)
    return got[1] == (clv if clv is not None else 0)


def _values(a, b, p1, p2, q1, q2):
    """build the header list for the current CASE from symbolic pieces"""
    names = CASE["names"]
    shapes = CASE["shapes"]      # per header: "free" or a concrete core string
    vals = []
    pieces = [(a, p1, p2), (b, q1, q2)]
    for i in range(len(names)):
        free, l, r = pieces[i]
        if shapes[i] == "free":
            vals.append(free)
        else:
            vals.append(l + shapes[i] + r)
    return [(names[i], vals[i]) for i in range(len(names))]


def framing(a: str, b: str, p1: str, p2: str, q1: str, q2: str) -> bool:
    """
    pre: len(a) == CASE["free"][0] and len(b) == CASE["free"][1]
    pre: len(p1) <= CASE["pads"][0] and len(p2) <= CASE["pads"][1] and len(q1) <= CASE["pads"][2] and len(q2) <= CASE["pads"][3]
    pre: all(deliverable(v) for _, v in _values(a, b, p1, p2, q1, q2))
    pre: kf_ok("C01.framing", headers=_values(a, b, p1, p2, q1, q2))
    post: __return__
    """
    headers = _values(a, b, p1, p2, q1, q2)
    version = (1, 1) if CASE["v11"] else (1, 0)
    # the client's wish to keep the connection must never override a framing gunicorn itself cannot trust
    got, r = decide(version, headers + [("CONNECTION", "keep-alive")])
    want = ref.framing(version, headers)
    if not agree(got, want, headers):
        return False
    if got[0] == "length" and want == ref.LENIENT:
        # Transfer-Encoding without chunked was accepted: if a real transfer coding (not identity) is announced the
        # body cannot be delimited - nothing after this request may be parsed from the connection
        for name, value in headers:
            if name == "TRANSFER-ENCODING":
                cs = ref.te_codings(value)
                if cs is not None and any(c != "identity" for c in cs) and not r.should_close():
                    return False
    return True


def framing_twin(a: str, b: str, p1: str, p2: str, q1: str, q2: str) -> bool:
    """
    pre: len(a) == CASE["free"][0] and len(b) == CASE["free"][1]
    pre: len(p1) <= CASE["pads"][0] and len(p2) <= CASE["pads"][1] and len(q1) <= CASE["pads"][2] and len(q2) <= CASE["pads"][3]
    pre: all(deliverable(v) for _, v in _values(a, b, p1, p2, q1, q2))
    post: __return__
    """
    headers = _values(a, b, p1, p2, q1, q2)
    version = (1, 1) if CASE["v11"] else (1, 0)
    got, _ = decide(version, headers)
    return got[0] != CASE["reach"]


# ---- 2. chunk-size line -------------------------------------------------------------------
def no_crlf(b):
    for i in range(len(b) - 1):
        if b[i] == 13 and b[i + 1] == 10:
            return False
    return True


def chunk_size(line: bytes) -> bool:
    """
    pre: len(line) == CASE["n"]
    pre: no_crlf(line)
    post: __return__
    """
    r = mk_req()
    cr = object.__new__(ChunkedReader)
    cr.req = r
    u = IterUnreader([line + b"\r\nXY"])
    try:
        size, rest = cr.parse_chunk_size(u)
    except InvalidChunkSize:
        return True
    except NoMoreData:
        # size 0 -> trailers; "XY" is not a complete trailer block
        return True
    want = ref.chunk_size_line(line)
    if size == 0:
        return want == 0
    return want == size and rest == b"XY"


def chunk_size_twin(line: bytes) -> bool:
    """
    pre: len(line) == CASE["n"]
    pre: no_crlf(line)
    post: __return__
    """
    r = mk_req()
    cr = object.__new__(ChunkedReader)
    cr.req = r
    u = IterUnreader([line + b"\r\nXY"])
    try:
        size, rest = cr.parse_chunk_size(u)
    except (InvalidChunkSize, NoMoreData):
        return True
    return size <= 9            # witness: a multi-digit / letter size is accepted


# ---- 2b. chunk-size line over an alphabet of bytes that number parsers treat specially ---------------------------------
# int(x, 16), bytes.isalnum/isdigit, strip() and friends accept more than HEXDIG: prefixes (0x), signs, underscores,
# surrounding whitespace.  The fully symbolic obligation above covers every byte value up to 3-4 bytes; this one trades the
# alphabet for length, so that multi-character spellings ("0x1f", "1_0", "+1f", " 1f") are inside the bound whatever
# library call a rewrite of the check uses (library calls on symbolic bytes may be out of CrossHair's reach).
SIZE_ALPHA = [b"0", b"1", b"a", b"F", b"x", b"_", b"+", b"-", b" ", b";", b"g", b"X", b"\t", b"9", b"f", b"A", b"o", b"\x00",
              b"\x80", b"\xb2", b"\x0b", b"."]


def chunk_size_alpha(i0: int, i1: int, i2: int, i3: int, i4: int) -> bool:
    """
    pre: 0 <= i0 < CASE["k"] and 0 <= i1 < CASE["k"] and 0 <= i2 < CASE["k"] and 0 <= i3 < CASE["k"] and 0 <= i4 < CASE["k"]
    post: __return__
    """
    k, n = CASE["k"], CASE["n"]
    idx = [i0, i1, i2, i3, i4][:n]
    line = b"".join(SIZE_ALPHA[pick(i, 0, k - 1)] for i in idx)
    r = mk_req()
    cr = object.__new__(ChunkedReader)
    cr.req = r
    u = IterUnreader([line + b"\r\nXY"])
    try:
        size, rest = cr.parse_chunk_size(u)
    except InvalidChunkSize:
        return True
    except NoMoreData:
        return True
    want = ref.chunk_size_line(line)
    if size == 0:
        return want == 0
    return want == size and rest == b"XY"


# ---- 3. chunk data + terminator -------------------------------------------------------------
def chunk_body(data: bytes, cut: int) -> bool:
    """
    pre: len(data) == CASE["n"]
    pre: 0 <= cut <= len(data)
    post: __return__
    """
    size = CASE["size"]
    r = mk_req()
    cr = object.__new__(ChunkedReader)
    cr.req = r
    head = ("%x" % size).encode() + b"\r\n"
    chunks = [head + data[:cut]] + ([data[cut:]] if cut < len(data) else [])
    u = IterUnreader(chunks)
    gen = cr.parse_chunked(u)
    got = b""
    try:
        # stop as soon as the first chunk's data has been delivered and the terminator judged:
        # the generator judges the terminator when asked for the piece after the chunk data.
        while len(got) < size:
            got += next(gen)
        if len(data) >= size:
            # ask for more: forces the CRLF check and the next chunk-size parse
            try:
                next(gen)
                more = "data"
            except StopIteration:
                more = "end"
            except ChunkMissingTerminator:
                more = "noterm"
            except (InvalidChunkSize, NoMoreData):
                more = "later"
    except NoMoreData:
        return len(data) < size            # only legitimate when the chunk data itself is short
    except StopIteration:
        return False
    if got != data[:size]:
        return False
    tail = data[size:size + 2]
    if len(tail) < 2:
        # terminator incomplete at EOF: must not be accepted as a terminator
        return more in ("noterm", "later")
    if tail != b"\r\n":
        return more == "noterm"
    return more != "noterm"


def chunk_body_twin(data: bytes, cut: int) -> bool:
    """
    pre: len(data) == CASE["n"]
    pre: 0 <= cut <= len(data)
    post: __return__
    """
    size = CASE["size"]
    r = mk_req()
    cr = object.__new__(ChunkedReader)
    cr.req = r
    head = ("%x" % size).encode() + b"\r\n"
    chunks = [head + data[:cut]] + ([data[cut:]] if cut < len(data) else [])
    gen = cr.parse_chunked(IterUnreader(chunks))
    got = b""
    try:
        while len(got) < size:
            got += next(gen)
        next(gen)
    except StopIteration:
        return False      # witness: a complete "size CRLF data CRLF 0 CRLF CRLF" stream was accepted to its end
    except (NoMoreData, ChunkMissingTerminator, InvalidChunkSize):
        return True
    return True


# ---- 4. field line -----------------------------------------------------------------------------
def field_line(line: bytes) -> bool:
    """
    pre: len(line) == CASE["n"]
    pre: no_crlf(line)
    pre: CASE["first"][0] <= line[0] <= CASE["first"][1]
    post: __return__
    """
    r = mk_req(cfg=CFG(header_map=CASE["header_map"]))
    try:
        hs = r.parse_headers(line)
    except (InvalidHeader, InvalidHeaderName, ObsoleteFolding, LimitRequestHeaders):
        return True
    want = ref.field_line(line)
    if want is None:
        return False
    i, lo, hi = want
    if len(hs) == 0:
        # dropped: only allowed for underscore names under header_map=drop
        if CASE["header_map"] != "drop":
            return False
        for k in range(i):
            if line[k] == 95:
                return True
        return False
    if len(hs) != 1:
        return False
    name, value = hs[0]
    if len(name) != i or len(value) != hi - lo:
        return False
    for k in range(hi - lo):
        if ord(value[k]) != line[lo + k]:
            return False
    for k in range(i):
        c = line[k]
        if 97 <= c <= 122:
            c -= 32
        if ord(name[k]) != c:
            return False
        if line[k] == 95:
            return False          # underscore names must not survive under drop/refuse
    return True


def field_line_twin(line: bytes) -> bool:
    """
    pre: len(line) == CASE["n"]
    pre: no_crlf(line)
    post: __return__
    """
    r = mk_req(cfg=CFG(header_map=CASE["header_map"]))
    try:
        hs = r.parse_headers(line)
    except (InvalidHeader, InvalidHeaderName, ObsoleteFolding, LimitRequestHeaders):
        return True
    return len(hs) != 1 or len(hs[0][1]) == 0     # witness: a line with a non-empty value is accepted


def obs_fold(l1: bytes, l2: bytes) -> bool:
    """
    pre: len(l1) == CASE["n1"] and len(l2) == CASE["n2"]
    pre: no_crlf(l1) and no_crlf(l2) and l1[len(l1) - 1] != 13 and l2[0] != 10
    post: __return__
    """
    r = mk_req(cfg=CFG(header_map=CASE["header_map"]))
    try:
        hs = r.parse_headers(l1 + b"\r\n" + l2)
    except (InvalidHeader, InvalidHeaderName, ObsoleteFolding, LimitRequestHeaders):
        return True
    # accepted: second line must not have been a continuation, and both must be valid field lines
    if l2[0] == 32 or l2[0] == 9:
        return False
    return ref.field_line(l1) is not None and ref.field_line(l2) is not None


# ---- 5. request line --------------------------------------------------------------------------
def latin1_ok(s):
    for ch in s:
        if ord(ch) > 255:
            return False
    return True


def request_method(m: str) -> bool:
    """
    pre: len(m) == CASE["n"]
    pre: latin1_ok(m)
    post: __return__
    """
    r = mk_req()
    line = m.encode("latin-1") + b" / HTTP/1.1"
    try:
        r.parse_request_line(line)
    except (InvalidRequestLine, InvalidRequestMethod, InvalidHTTPVersion):
        return True
    # accepted: method must be an RFC 9110 token and exactly what was sent
    return ref.is_token(m) and r.method == m and r.uri == "/" and r.version == (1, 1)


def request_method_twin(m: str) -> bool:
    """
    pre: len(m) == CASE["n"]
    pre: latin1_ok(m)
    post: __return__
    """
    r = mk_req()
    try:
        r.parse_request_line(m.encode("latin-1") + b" / HTTP/1.1")
    except (InvalidRequestLine, InvalidRequestMethod, InvalidHTTPVersion):
        return True
    return False


def request_version(v: str) -> bool:
    """
    pre: len(v) == CASE["n"]
    pre: latin1_ok(v)
    post: __return__
    """
    r = mk_req()
    line = b"GET / " + CASE["prefix"].encode() + v.encode("latin-1")
    try:
        r.parse_request_line(line)
    except (InvalidRequestLine, InvalidRequestMethod, InvalidHTTPVersion):
        return True
    want = ref.http_version(CASE["prefix"] + v)
    return want is not None and r.version == want and (1, 0) <= want < (2, 0)


def request_version_twin(v: str) -> bool:
    """
    pre: len(v) == CASE["n"]
    pre: latin1_ok(v)
    post: __return__
    """
    r = mk_req()
    try:
        r.parse_request_line(b"GET / " + CASE["prefix"].encode() + v.encode("latin-1"))
    except (InvalidRequestLine, InvalidRequestMethod, InvalidHTTPVersion):
        return True
    return False


# ---- 6. message boundary: Content-Length body, partial read, next request offset ----------------
class _P(RequestParser):
    pass


def boundary(n: int, k: int, tail: bytes, cut: int) -> bool:
    """
    pre: 0 <= n <= CASE["n"] and 0 <= k <= n + 1
    pre: len(tail) <= CASE["tail"]
    pre: 0 <= cut <= n + len(tail)
    post: __return__
    """
    body = b"abcdefgh"[:n]
    stream = body + tail
    chunks = [c for c in (stream[:cut], stream[cut:]) if len(c)]
    u = IterUnreader(chunks)
    r = mk_req([("CONTENT-LENGTH", str(n))], (1, 1))
    r.unreader = u
    r.set_body_reader()
    got = r.body.read(k)
    if got != body[:k]:
        return False
    # what Parser.__next__ does before parsing the next message
    data = r.body.read(8192)
    while data:
        data = r.body.read(8192)
    rest = b""
    d = u.read()
    while d:
        rest = rest + d
        d = u.read()
    return rest == tail


def boundary_twin(n: int, k: int, tail: bytes, cut: int) -> bool:
    """
    pre: 0 <= n <= CASE["n"] and 0 <= k <= n + 1
    pre: len(tail) <= CASE["tail"]
    pre: 0 <= cut <= n + len(tail)
    post: __return__
    """
    return not (n >= 2 and k == 1 and len(tail) >= 1 and 0 < cut < n)


# ---- obligations ------------------------------------------------------------------------------------
def _framing_cases(tier):
    quick = tier == "quick"
    pad, free = (1, 2) if quick else (1, 3)
    cs = []
    TE, CL = "TRANSFER-ENCODING", "CONTENT-LENGTH"
    Z = [0, 0, 0, 0]
    for n in range(0, free + 1):
        for v11 in ((True, False) if n <= 2 else (True,)):
            cs.append({"names": [TE], "shapes": ["free"], "free": [n, 0], "pads": Z, "v11": v11})
        cs.append({"names": [CL], "shapes": ["free"], "free": [n, 0], "pads": Z, "v11": True})
    cores = ("chunked", "gzip", "identity", "chunked,chunked", "gzip, chunked", "chunked, gzip", "chunked;q=1")
    for core in cores:
        for v11 in ((True, False) if core == "chunked" else (True,)):
            cs.append({"names": [TE], "shapes": [core], "free": [0, 0], "pads": [pad, pad, 0, 0], "v11": v11})
    if not quick:
        for core in ("chunked", "gzip, chunked"):
            cs.append({"names": [TE], "shapes": [core], "free": [0, 0], "pads": [2, 0, 0, 0], "v11": True})
            cs.append({"names": [TE], "shapes": [core], "free": [0, 0], "pads": [0, 2, 0, 0], "v11": True})
    for n1 in (0, 1, 2):
        for n2 in (0, 1, 2):
            if quick and n1 + n2 > 3:
                continue
            cs.append({"names": [CL, CL], "shapes": ["free", "free"], "free": [n1, n2], "pads": Z, "v11": True})
    for n in ((0, 1) if quick else (0, 1, 2)):
        cs.append({"names": [CL, TE], "shapes": ["free", "chunked"], "free": [n, 0], "pads": [0, 0, 1, 1], "v11": True})
        cs.append({"names": [TE, CL], "shapes": ["chunked", "free"], "free": [0, n], "pads": [1, 1, 0, 0], "v11": True})
        cs.append({"names": [TE, CL], "shapes": ["identity", "free"], "free": [0, n], "pads": [1, 1, 0, 0], "v11": True})
    for c1, c2 in (("chunked", "chunked"), ("gzip", "chunked"), ("chunked", "identity"), ("identity", "chunked")):
        for pads in ([[0, 1, 1, 0]] if quick else [[1, 1, 0, 0], [0, 0, 1, 1], [0, 1, 1, 0]]):
            cs.append({"names": [TE, TE], "shapes": [c1, c2], "free": [0, 0], "pads": pads, "v11": True})
    return cs


def _twin_cases():
    TE, CL = "TRANSFER-ENCODING", "CONTENT-LENGTH"
    Z = [0, 0, 0, 0]
    return [
        {"names": [TE], "shapes": ["chunked"], "free": [0, 0], "pads": Z, "v11": True, "reach": "chunked"},
        {"names": [TE], "shapes": ["gzip, chunked"], "free": [0, 0], "pads": Z, "v11": True, "reach": "chunked"},
        {"names": [CL], "shapes": ["free"], "free": [2, 0], "pads": Z, "v11": True, "reach": "length"},
        {"names": [TE], "shapes": ["chunked"], "free": [0, 0], "pads": [1, 1, 0, 0], "v11": False, "reach": "reject"},
    ]


_FIRST = [[0, 57], [58, 58], [59, 94], [95, 95], [96, 255]]

def _fl(ns, split3):
    out = []
    for n in ns:
        for hm in ("drop", "refuse"):
            for f in (split3 if n >= 3 else [[0, 255]]):
                out.append({"n": n, "header_map": hm, "first": f})
    return out


OBLIGATIONS = [
    Ob("C01.framing", "framing", cases={"quick": _framing_cases("quick"), "thorough": _framing_cases("thorough")},
       timeout={"quick": 400, "thorough": 2400},
       bound="<=2 headers from {Content-Length, Transfer-Encoding}; free values len<=2 (thorough 3); "
             "pad+core+pad with pads len<=1 (thorough also one-sided 2) of any latin-1 codepoint, cores {chunked, gzip, "
             "identity, 'chunked,chunked', 'gzip, chunked', 'chunked, gzip', 'chunked;q=1'}; HTTP/1.0 and 1.1"),
    Ob("C01.framing.twin", "framing_twin", cases=_twin_cases(), expect="refute", timeout=60),
    Ob("C01.chunk_size", "chunk_size", cases={"quick": [{"n": n} for n in (0, 1, 2, 3)],
                                             "thorough": [{"n": n} for n in (0, 1, 2, 3, 4)]},
       timeout=1200, bound="chunk-size line of 0..3 (thorough 4) arbitrary bytes without CRLF"),
    Ob("C01.chunk_size_alpha", "chunk_size_alpha",
       cases={"quick": [{"n": 3, "k": 13}, {"n": 4, "k": 6}], "thorough": [{"n": 3, "k": 22}, {"n": 4, "k": 10}, {"n": 5, "k": 6}]},
       timeout=1800,
       bound="chunk-size lines of 3 bytes over the first 13 of the alphabet 0 1 a F x _ + - SP ; g X HTAB 9 f A o NUL 0x80 0xb2 VT . "
             "and of 4 bytes over its first 6 (thorough: 3 over all 22, 4 over 10, 5 over 6)"),
    Ob("C01.chunk_size.twin", "chunk_size_twin", cases=[{"n": 2}], expect="refute", timeout=60),
    Ob("C01.chunk_body", "chunk_body",
       cases={"quick": [{"size": s, "n": n} for s in (1, 2) for n in range(0, 5)],
              "thorough": [{"size": s, "n": n} for s in (1, 2, 3) for n in range(0, 7)]},
       timeout=900, bound="chunk of size 1..2 (thorough 3) followed by 0..4 (thorough 6) arbitrary bytes, one cut"),
    Ob("C01.chunk_body.twin", "chunk_body_twin", cases=[{"size": 1, "n": 8}], expect="refute", timeout=120),
    Ob("C01.field_line", "field_line",
       cases={"quick": _fl((1, 2), None) + _fl((3,), [[58, 58], [95, 95]]),
              "thorough": _fl((1, 2, 3), _FIRST)},
       timeout=1500, bound="one field line of 1..2 arbitrary bytes (quick: 3 bytes only when starting with ':' or '_'; "
                           "thorough: all 3-byte lines) without CRLF; header_map drop|refuse"),
    Ob("C01.field_line.twin", "field_line_twin", cases=[{"n": 3, "header_map": "drop"}], expect="refute", timeout=60),
    Ob("C01.obs_fold", "obs_fold",
       cases={"quick": [{"n1": a, "n2": b, "header_map": "drop"} for a, b in ((1, 1), (1, 2), (2, 1))],
              "thorough": [{"n1": a, "n2": b, "header_map": "drop"} for a, b in ((1, 1), (1, 2), (2, 1), (2, 2), (3, 1))]},
       timeout=1800, bound="two lines, (len1,len2) in {(1,1),(1,2),(2,1)} (thorough +(2,2),(3,1))"),
    Ob("C01.request_method", "request_method",
       cases={"quick": [{"n": n} for n in (0, 1, 2)], "thorough": [{"n": n} for n in (0, 1, 2, 3)]},
       timeout=1800, bound="method of 0..2 (thorough 3) arbitrary latin-1 characters, target '/', HTTP/1.1"),
    Ob("C01.request_method.twin", "request_method_twin", cases=[{"n": 3}], expect="refute", timeout=60),
    Ob("C01.request_version", "request_version",
       cases=[{"prefix": "HTTP/", "n": n} for n in (0, 1, 2, 3, 4)] + [{"prefix": "", "n": n} for n in (1, 2, 3)],
       timeout=600, bound="version field = 'HTTP/' + 0..4 arbitrary characters, or 1..3 arbitrary characters"),
    Ob("C01.request_version.twin", "request_version_twin", cases=[{"prefix": "HTTP/", "n": 3}], expect="refute",
       timeout=60),
    Ob("C01.boundary", "boundary", cases={"quick": [{"n": 2, "tail": 2}], "thorough": [{"n": 4, "tail": 2}]},
       timeout=1800, bound="Content-Length n<=2 (thorough 4), app reads k<=n+1 bytes, symbolic tail <=2 bytes, 1 cut"),
    Ob("C01.boundary.twin", "boundary_twin", cases=[{"n": 3, "tail": 2}], expect="refute", timeout=60),
    Ob("C01.lex_smt", "req_lex", smt="req_lex_smt", cases=[{"permit": False}, {"permit": True}], timeout=300,
       bound="strings of ANY length over latin-1 (what a request can carry): the regex gates of parse_headers / parse_request_line "
             "(pattern and applied method read from the source) accept only RFC 9110 tokens as field names and methods, only values free "
             "of NUL/CR/LF, and only 'HTTP/' DIGIT '.' DIGIT as version; z3 regex inclusion (accepted within RFC) "
             "under the call-site context (no ':' in names, values trimmed, no SP in methods), models replayed through Request()"),
]

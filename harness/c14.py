"""C14 - binary upgrade (USR2) hands the listening sockets over (master decision logic).

  1 unlink     Arbiter.stop(): the unix socket file is removed iff no other master can be using it
               (reexec_pid == 0, master_pid == 0, not systemd, not reuse_port) for all symbolic combinations
  2 reexec     Arbiter.reexec(): ignored while an upgrade is pending (reexec_pid != 0) or when this master is itself the
               new one (master_pid != 0); otherwise forks; the child execs with GUNICORN_PID = the old master's pid and
               GUNICORN_FD = the listeners' fds in order (or LISTEN_PID/LISTEN_FDS under systemd)
  3 start      Arbiter.start() with/without GUNICORN_PID: '.2' pid-file name, listeners adopted from GUNICORN_FD;
               maybe_promote_master() promotes exactly when the parent is gone and renames the pid file once
  4 reap       reap_workers() clears reexec_pid when the new master exits, so that a later USR2 is accepted and stop()
               unlinks again
  5 history    two Arbiter objects (old, new) sharing one simulated kernel and file system: histories of <=3 events from
               {USR2 to old, TERM old, TERM new, USR2 again}: the unix socket path exists iff a master is alive
"""
import signal
from types import SimpleNamespace
from typing import List

from engine.harness_api import Ob, setup, pick, ns
setup(shim=False)

import gunicorn.arbiter as A  # noqa: E402
import gunicorn.sock as GS  # noqa: E402
from engine.stubs import kernel as KS  # noqa: E402
from harness.c03 import mk_arbiter  # noqa: E402

PROPERTY = "C14"
CASE = {}
KERNELS = ["gunicorn.arbiter:Arbiter.stop", "gunicorn.arbiter:Arbiter.reexec", "gunicorn.arbiter:Arbiter.start",
           "gunicorn.arbiter:Arbiter.maybe_promote_master", "gunicorn.arbiter:Arbiter.reap_workers",
           "gunicorn.arbiter:Arbiter.handle_usr2", "gunicorn.arbiter:Arbiter.halt", "gunicorn.sock:close_sockets",
           "gunicorn.sock:create_sockets", "gunicorn.sock:BaseSocket.__init__", "gunicorn.sock:BaseSocket.set_options",
           "gunicorn.pidfile:Pidfile.rename"]
STUBS = ["simulated kernel; os.execvpe / os.chdir / os.environ inside gunicorn.arbiter -> recorders; listeners -> recording "
         "objects with a unix path name and a fileno; os.unlink inside gunicorn.sock -> shared path table; Pidfile -> recorder; "
         "systemd.listen_fds -> harness value; init_signals -> no-op",
         "C14.adopt: the socket module inside gunicorn.sock -> descriptor-table model (FdTable: socket()/fromfd() give "
         "non-inheritable descriptors, fromfd duplicates, exec keeps exactly the inheritable ones)",
         "C14.start_pidfiles: real Pidfile on engine/stubs/fs.py"]
ASSUMPTIONS = ["exec of the new binary = constructing a second Arbiter object from the recorded environment",
               "fd inheritance by the kernel follows PEP 446 as modelled in FdTable (C14.adopt); elsewhere the new master adopts "
               "exactly the fds named in GUNICORN_FD"]
OUTSIDE = ["real execvpe, real descriptors", "clients during the hand-over", "TCP-only binds have no file to unlink"]

SOCK = "/run/g.sock"


class Lsn:
    def __init__(self, name, fd):
        self.name = name
        self.fd = fd
        self.closed = 0
        self.shut = 0

    def getsockname(self):
        return self.name

    def fileno(self):
        return self.fd

    def close(self):
        self.closed += 1

    def shutdown(self, how):
        # shutdown(2) acts on the socket itself, not on this process's descriptor: every process that inherited the
        # listener stops listening with it
        self.shut += 1

    def __str__(self):
        return str(self.name)


class PidRec:
    log = []

    def __init__(self, fname):
        self.fname = fname
        self.pid = None

    def create(self, pid):
        self.pid = pid
        PidRec.log.append(("create", self.fname, pid))

    def unlink(self):
        PidRec.log.append(("unlink", self.fname))

    def rename(self, path):
        PidRec.log.append(("rename", self.fname, path))
        self.fname = path


class Exec(BaseException):
    pass


def wire(arb, K, environ, paths):
    """install stubs for arbiter + sock; returns undo()"""
    undo = KS.install(A, K)
    rec = {"exec": None, "chdir": None}

    def execvpe(f, args, env):
        rec["exec"] = (f, list(args), dict(env))
        raise Exec()
    fos = A.os
    fake_os = SimpleNamespace(fork=K.fork, kill=K.kill, waitpid=K.waitpid, getpid=K.getpid, getppid=K.getppid,
                         write=K.write, read=K.read, WNOHANG=1, environ=environ, execvpe=execvpe,
                         chdir=lambda d: rec.__setitem__("chdir", d), close=lambda fd: None)
    A.os = fake_os
    saved_gs = GS.os

    def unlink(p):
        paths.discard(p)
    GS.os = ns("GS.os", unlink=unlink)
    A.sock = GS

    def undo2():
        undo()
        GS.os = saved_gs
    return undo2, rec


# ---- 1. unlink flag ----------------------------------------------------------------------------------------------------
def unlink_flag(reexec_pid: int, master_pid: int, systemd: bool, reuse_port: bool, graceful: bool) -> bool:
    """
    pre: 0 <= reexec_pid <= 3 and 0 <= master_pid <= 3
    post: __return__
    """
    K = KS.Kernel()
    arb = mk_arbiter(K, 0)
    arb.reexec_pid = reexec_pid
    arb.master_pid = master_pid
    arb.systemd = systemd
    arb.cfg.reuse_port = reuse_port
    arb.cfg.graceful_timeout = 1
    lsn = [Lsn(SOCK, 5), Lsn(("127.0.0.1", 80), 6)]
    arb.LISTENERS = list(lsn)
    paths = {SOCK}
    undo, rec = wire(arb, K, {}, paths)
    try:
        arb.stop(graceful)
    finally:
        undo()
    alone = reexec_pid == 0 and master_pid == 0 and not systemd and not reuse_port
    shared = reexec_pid != 0 or master_pid != 0 or systemd
    if shared and any(l.shut for l in lsn):
        return False                 # the other master (or the activating service manager) keeps using this very socket
    return all(l.closed == 1 for l in lsn) and arb.LISTENERS == [] and ((SOCK not in paths) == alone)


# ---- 2. reexec -------------------------------------------------------------------------------------------------------------
def reexec(reexec_pid: int, master_pid: int, systemd: bool, child: bool, fd1: int, fd2: int) -> bool:
    """
    pre: 0 <= reexec_pid <= 2 and 0 <= master_pid <= 2
    pre: 3 <= fd1 <= 9 and 3 <= fd2 <= 9 and fd1 != fd2
    post: __return__
    """
    K = KS.Kernel()
    K.pid = 40
    arb = mk_arbiter(K, 0)
    arb.pid = 40
    arb.reexec_pid = reexec_pid
    arb.master_pid = master_pid
    arb.systemd = systemd
    arb.cfg.env_orig = {"PATH": "/bin"}
    arb.cfg.pre_exec = lambda a: None
    arb.START_CTX = {"args": ["py", "gunicorn"], "cwd": "/srv", 0: "py"}
    arb.LISTENERS = [Lsn(SOCK, fd1), Lsn(("127.0.0.1", 80), fd2)]
    undo, rec = wire(arb, K, {}, {SOCK})
    if child:
        A.os.fork = lambda: 0
        A.os.getpid = lambda: (41 if rec.get("forked") else 40)
    forks0 = len(K.order)
    try:
        try:
            arb.reexec()
        except Exec:
            pass
    finally:
        undo()
    if reexec_pid != 0 or master_pid != 0:
        # ignored: nothing forked, nothing exec'ed, state untouched
        return rec["exec"] is None and len(K.order) == forks0 and arb.reexec_pid == reexec_pid
    if not child:
        return rec["exec"] is None and len(K.order) == forks0 + 1 and arb.reexec_pid == K.order[-1]
    if rec["exec"] is None:
        return False
    f, args, env = rec["exec"]
    if f != "py" or args != ["py", "gunicorn"] or rec["chdir"] != "/srv" or env.get("PATH") != "/bin":
        return False
    if env.get("GUNICORN_PID") != "40":
        return False
    if systemd:
        return env.get("LISTEN_FDS") == "2" and "GUNICORN_FD" not in env and "LISTEN_PID" in env
    return env.get("GUNICORN_FD") == "%d,%d" % (fd1, fd2)


# ---- 3. start / promotion -----------------------------------------------------------------------------------------------------
def start(upgraded: bool, fd1: int, fd2: int, pidfile: bool, ppid_is_old: bool) -> bool:
    """
    pre: 3 <= fd1 <= 9 and 3 <= fd2 <= 9 and fd1 != fd2
    post: __return__
    """
    K = KS.Kernel()
    K.pid = 41
    K.ppid = 40 if ppid_is_old else 1
    arb = mk_arbiter(K, 1)
    arb.cfg.pidfile = "/run/g.pid" if pidfile else None
    arb.cfg.on_starting = lambda a: None
    arb.cfg.when_ready = lambda a: None
    arb.cfg.worker_class_str = "sync"
    arb.cfg.proc_name = "g"
    arb.worker_class = SimpleNamespace()
    arb.init_signals = lambda: None
    del arb.start                                   # use the real method
    environ = {}
    if upgraded:
        environ["GUNICORN_PID"] = "40"
        environ["GUNICORN_FD"] = "%d,%d" % (fd1, fd2)
    adopted = []

    def create_sockets(cfg, log, fds=None):
        adopted.append(None if fds is None else list(fds))
        return [Lsn("x", f) for f in (fds or [7])]
    undo, rec = wire(arb, K, environ, {SOCK})
    A.sock = ns("A.sock", create_sockets=create_sockets, close_sockets=lambda l, u=True: None)
    A.systemd = ns("A.systemd", listen_fds=lambda: 0, sd_notify=lambda *a, **k: None, SD_LISTEN_FDS_START=3)
    saved_pf = A.Pidfile
    A.Pidfile = PidRec
    PidRec.log = []
    try:
        arb.start()
        log_after_start = list(PidRec.log)
        arb.maybe_promote_master()
        arb.maybe_promote_master()                  # a second look must not rename again
    finally:
        undo()
        A.Pidfile = saved_pf
    if upgraded:
        if adopted != [[fd1, fd2]]:
            return False
        if pidfile and log_after_start != [("create", "/run/g.pid.2", 41)]:
            return False
        if "GUNICORN_FD" in environ:
            return False
        if ppid_is_old:
            # old master still there: stays the '.2' master
            return arb.master_pid == 40 and PidRec.log == log_after_start and environ.get("GUNICORN_PID") == "40"
        renames = [e for e in PidRec.log if e[0] == "rename"]
        if arb.master_pid != 0 or "GUNICORN_PID" in environ:
            return False
        return renames == ([("rename", "/run/g.pid.2", "/run/g.pid")] if pidfile else [])
    if adopted != [None] or arb.master_pid != 0:
        return False
    return PidRec.log == ([("create", "/run/g.pid", 41)] if pidfile else [])


def start_pidfiles(old_left_file: bool, ppid_is_old: bool, stale2: bool) -> bool:
    """
    post: __return__
    """
    # the upgraded start again, with the REAL Pidfile class on the file-system stub (engine/stubs/fs.py): the files
    # themselves are judged.  Old master = pid 40 (its file "/run/g.pid"), new master = pid 41.
    import gunicorn.pidfile as PF
    from engine.stubs.fs import FS, install as fs_install
    K = KS.Kernel()
    K.pid = 41
    K.ppid = 40 if ppid_is_old else 1
    arb = mk_arbiter(K, 1)
    arb.cfg.pidfile = "/run/g.pid"
    arb.cfg.on_starting = lambda a: None
    arb.cfg.when_ready = lambda a: None
    arb.cfg.worker_class_str = "sync"
    arb.cfg.proc_name = "g"
    arb.worker_class = SimpleNamespace()
    arb.init_signals = lambda: None
    del arb.start
    environ = {"GUNICORN_PID": "40", "GUNICORN_FD": "7"}
    files = {}
    if ppid_is_old or old_left_file:
        files["/run/g.pid"] = b"40\n"                 # a live old master always has its file; a killed one leaves it
    if stale2:
        files["/run/g.pid.2"] = b"39\n"               # left over from an earlier, aborted upgrade (pid 39 is gone)
    fs = FS(files, alive={41} | ({40} if ppid_is_old else set()), pid=41)
    undo, rec = wire(arb, K, environ, {SOCK})
    A.sock = ns("A.sock", create_sockets=lambda cfg, log, fds=None: [Lsn("x", f) for f in (fds or [7])],
                close_sockets=lambda l, u=True: None)
    A.systemd = ns("A.systemd", listen_fds=lambda: 0, sd_notify=lambda *a, **k: None, SD_LISTEN_FDS_START=3)
    undo_fs = fs_install(PF, fs)
    try:
        arb.start()
        after_start = dict(fs.files)
        arb.maybe_promote_master()
        arb.maybe_promote_master()
    finally:
        undo_fs()
        undo()
    if after_start.get("/run/g.pid.2") != b"41\n":
        return False                                    # pending upgrade: our pid under the '.2' name
    if after_start.get("/run/g.pid") != files.get("/run/g.pid"):
        return False                                    # the old master's file is not ours to touch
    if ppid_is_old:
        return fs.files == after_start                  # nothing moves while the old master is alive
    # old master gone: exactly one pid file, under the configured name, naming us
    return fs.files == {"/run/g.pid": b"41\n"} and not fs.fds


# ---- 3c. adopting the listeners: the real sock.create_sockets / BaseSocket.__init__ on a descriptor-table model ---------------
class FdTable:
    """open descriptors -> (open socket description id, inheritable flag).  Contract modelled (PEP 446, socket docs):
    socket.socket() and socket.fromfd() return NON-inheritable descriptors (fromfd duplicates); os.close drops one
    descriptor; a description stays alive while any descriptor refers to it; exec keeps exactly the inheritable ones."""

    def __init__(self):
        self.fds = {}
        self.desc = {}
        self.next_fd = 20
        self.next_desc = 0

    def new_desc(self, name, listening=False):
        self.next_desc += 1
        self.desc[self.next_desc] = {"name": name, "listening": listening, "blocking": True, "bound": name is not None}
        return self.next_desc

    def new_fd(self, desc, inheritable=False):
        self.next_fd += 1
        self.fds[self.next_fd] = [desc, inheritable]
        return self.next_fd


class FSock:
    def __init__(self, T, fd):
        self.T, self.fd = T, fd

    def _d(self):
        return self.T.desc[self.T.fds[self.fd][0]]

    def fileno(self):
        return self.fd

    def getsockname(self):
        return self._d()["name"]

    def setsockopt(self, *a):
        pass

    def bind(self, addr):
        self._d()["name"] = addr
        self._d()["bound"] = True

    def listen(self, backlog):
        self._d()["listening"] = True

    def setblocking(self, f):
        self._d()["blocking"] = f

    def set_inheritable(self, f):
        self.T.fds[self.fd][1] = bool(f)

    def get_inheritable(self):
        return self.T.fds[self.fd][1]

    def close(self):
        self.T.fds.pop(self.fd, None)


def adopt(fresh: bool, unix: bool, gens: int) -> bool:
    """
    pre: 1 <= gens <= 3
    post: __return__
    """
    # generation 1 binds (fresh) or is handed descriptor 3 (e.g. by a service manager / an older master); every following
    # generation is "exec'd": only inheritable descriptors survive, their numbers are passed on as GUNICORN_FD.  After
    # every generation the listener must be the same open socket, listening, and inheritable again for the next upgrade.
    import socket as _socket
    gens = pick(gens, 1, 3)
    T = FdTable()
    addr = "/run/g.sock" if unix else ("127.0.0.1", 8000)
    conf = SimpleNamespace(address=[addr], reuse_port=False, backlog=64, certfile=None, keyfile=None, umask=0, uid=0, gid=0,
                           is_ssl=False)
    log = KS.NullLog()
    saved = (GS.socket, GS.os, GS.util)

    def fromfd(fd, family, type_):
        return FSock(T, T.new_fd(T.fds[fd][0], inheritable=False))

    def mk_socket(family, type_):
        return FSock(T, T.new_fd(T.new_desc(None), inheritable=False))
    GS.socket = ns("GS.socket", socket=mk_socket, fromfd=fromfd, **{k: getattr(_socket, k) for k in (
        "AF_INET", "AF_INET6", "AF_UNIX", "SOCK_STREAM", "SOL_SOCKET", "SO_REUSEADDR", "IPPROTO_TCP", "TCP_NODELAY")})
    GS.os = ns("GS.os", close=lambda fd: T.fds.pop(fd, None), stat=_raise_enoent, umask=lambda m: 0,
               path=ns("GS.os.path", exists=lambda p: True), unlink=lambda p: None, remove=lambda p: None)
    GS.util = ns("GS.util", chown=lambda p, u, g: None, is_ipv6=lambda a: False)
    try:
        handed = None
        if not fresh:
            d0 = T.new_desc(addr, listening=True)
            T.fds[3] = [d0, True]
            handed = [3]
        the_desc = None
        for g in range(gens):
            ls = GS.create_sockets(conf, log, handed)
            if len(ls) != 1:
                return False
            fd = ls[0].sock.fileno()
            if fd not in T.fds:
                return False
            desc = T.fds[fd][0]
            if the_desc is None:
                the_desc = desc
            if desc != the_desc:
                return False                              # not the very same listening socket any more
            dd = T.desc[desc]
            if not dd["listening"] or dd["blocking"] or dd["name"] != addr:
                return False
            if not T.fds[fd][1]:
                return False                              # would not survive the next exec: the next upgrade has no listener
            # exec of the next master: close-on-exec descriptors vanish, GUNICORN_FD names the listener
            T.fds = {k: v for k, v in T.fds.items() if v[1]}
            handed = [fd]
        return True
    finally:
        GS.socket, GS.os, GS.util = saved


def _raise_enoent(path):
    import errno as _e
    raise OSError(_e.ENOENT, "No such file or directory")


# ---- 4. reap clears reexec_pid -----------------------------------------------------------------------------------------------
def reap_reexec(status: int, other_first: bool) -> bool:
    """
    pre: 0 <= status <= 3
    post: __return__
    """
    K = KS.Kernel()
    arb = mk_arbiter(K, 1, ages=[1])
    new_master = K.fork()
    arb.reexec_pid = new_master
    K.procs[new_master] = ("zombie", [0, 9, 768, 256][pick(status, 0, 3)])
    if other_first:
        K.procs[K.order[0]] = ("zombie", 0)
    undo, rec = wire(arb, K, {}, {SOCK})
    halted = False
    try:
        try:
            arb.reap_workers()
        except A.HaltServer:
            halted = True
    finally:
        undo()
    # the exit status of the *new master* must never be mistaken for a worker boot failure
    if halted:
        return False
    if arb.reexec_pid != 0:
        return False
    # a further USR2 is accepted again
    undo, rec = wire(arb, K, {}, {SOCK})
    n0 = len(K.order)
    try:
        arb.reexec()
    finally:
        undo()
    return len(K.order) == n0 + 1 and arb.reexec_pid == K.order[-1]


# ---- 5. two masters ---------------------------------------------------------------------------------------------------------------
def history(evs: List[int]) -> bool:
    """
    pre: len(evs) == CASE["n"]
    pre: all(0 <= e <= 3 for e in evs)
    post: __return__
    """
    K = KS.Kernel(budget=50)
    paths = {SOCK}
    old = mk_arbiter(K, 0)
    old.pid = 40
    old.cfg.graceful_timeout = 1
    old.LISTENERS = [Lsn(SOCK, 5)]
    old.cfg.env_orig = {}
    old.cfg.pre_exec = lambda a: None
    old.START_CTX = {"args": ["py"], "cwd": "/", 0: "py"}
    new = None
    alive = {"old": True, "new": False}
    K.arb = None                                  # SIGCHLD routing is done by hand below
    for e in evs:
        e = pick(e, 0, 3)
        if e in (0, 3):                           # USR2 to the old master
            if not alive["old"]:
                continue
            K.pid = 40
            undo, rec = wire(old, K, {}, paths)
            try:
                before = old.reexec_pid
                old.reexec()
            finally:
                undo()
            if before != 0 or alive["new"]:
                if old.reexec_pid != before:
                    return False                  # a further USR2 while an upgrade is pending is ignored
                continue
            if old.reexec_pid == 0:
                return False
            # "exec": the new master comes up on the inherited socket
            new = mk_arbiter(K, 0)
            new.pid = old.reexec_pid
            new.master_pid = 40
            new.cfg.graceful_timeout = 1
            new.LISTENERS = [Lsn(SOCK, 5)]
            alive["new"] = True
        elif e == 1:                              # TERM old
            if not alive["old"]:
                continue
            K.pid = 40
            undo, rec = wire(old, K, {}, paths)
            try:
                old.stop()
            finally:
                undo()
            alive["old"] = False
            if new is not None and alive["new"]:
                K.ppid = 1
                undo, rec = wire(new, K, {"GUNICORN_PID": "40"}, paths)
                try:
                    new.maybe_promote_master()    # parent gone: promoted
                finally:
                    undo()
        else:                                     # TERM new
            if new is None or not alive["new"]:
                continue
            K.pid = new.pid
            undo, rec = wire(new, K, {}, paths)
            try:
                new.stop()
            finally:
                undo()
            alive["new"] = False
            if alive["old"]:
                # the old master reaps its child: back to the single-master state
                K.procs[new.pid] = ("zombie", 0)
                K.pid = 40
                undo, rec = wire(old, K, {}, paths)
                try:
                    old.reap_workers()
                finally:
                    undo()
                if old.reexec_pid != 0:
                    return False
        # whichever master exits first leaves the socket file usable by the other
        if (SOCK in paths) != (alive["old"] or alive["new"]):
            return False
    return True


def history_twin(evs: List[int]) -> bool:
    """
    pre: len(evs) == CASE["n"]
    pre: all(0 <= e <= 3 for e in evs)
    post: __return__
    """
    return list(evs)[:3] != [0, 1, 2]             # witness: upgrade, old leaves, new leaves


OBLIGATIONS = [
    Ob("C14.unlink_flag", "unlink_flag", timeout=300, bound="reexec_pid, master_pid in 0..3, systemd, reuse_port, graceful flags"),
    Ob("C14.reexec", "reexec", timeout=600, bound="reexec_pid, master_pid in 0..2, systemd flag, parent/child side of fork, 2 listener fds 3..9"),
    Ob("C14.start", "start", timeout=600, bound="fresh / upgraded start, 2 inherited fds 3..9, pid file configured or not, old master alive or gone"),
    Ob("C14.start_pidfiles", "start_pidfiles", timeout=300,
       bound="upgraded start + promotion with the real Pidfile class on the FS stub: old master alive / gone, its file left behind or "
             "removed, stale '.2' file present or not"),
    Ob("C14.adopt", "adopt", timeout=300,
       bound="real sock.create_sockets / BaseSocket.__init__ over a descriptor-table model (fromfd duplicates, new descriptors are "
             "non-inheritable, exec keeps inheritable ones): TCP or unix listener, bound fresh or handed over, 1..3 generations"),
    Ob("C14.reap_reexec", "reap_reexec", timeout=300, bound="new master exits with status {0, 9, 3<<8, 1<<8}, with/without a worker exiting first"),
    Ob("C14.history", "history", cases={"quick": [{"n": 3}], "thorough": [{"n": 4}, {"n": 5}]}, timeout={"quick": 600, "thorough": 2400},
       bound="histories of 3 (thorough 4, 5) events from {USR2 old, TERM old, TERM new, USR2 again} over two Arbiter objects"),
    Ob("C14.history.twin", "history_twin", cases=[{"n": 3}], expect="refute", timeout=120),
]

"""C05 - hostile or broken input is contained: error reply, no application call, worker lives.

  1 ladder      real handle() of sync / gthread / async-base on a malformed head (one representative per parser
                exception class, real parser), cut at a solver-chosen offset followed by EOF or ECONNRESET, with the
                solver choosing whether and with which errno the client's socket fails the error reply; then a second,
                valid connection is served by the same worker object
  2 error_page  Worker.handle_error + util.write_error with every parser exception class carrying a symbolic payload
                (client bytes end up in the message via %s / %r): one well-formed response or nothing
Exception closure of the parser kernels themselves (only documented exception types for any input) is obligation
C01.* - every C01 harness treats an undeclared exception as a counterexample.
"""
import errno
from typing import List

from engine.harness_api import Ob, setup, pick
setup(shim=False)

from gunicorn.http import errors as E  # noqa: E402
from engine.stubs import workers as W  # noqa: E402
from engine.stubs.recsock import RecSock  # noqa: E402
from oracles import http_response as hr  # noqa: E402

W.install_clock()

PROPERTY = "C05"
CASE = {}
KERNELS = ["gunicorn.workers.base:Worker.handle_error", "gunicorn.util:write_error", "gunicorn.util:write_nonblock",
           "gunicorn.workers.sync:SyncWorker.handle", "gunicorn.workers.gthread:ThreadWorker.handle",
           "gunicorn.workers.gthread:ThreadWorker.finish_request", "gunicorn.workers.base_async:AsyncWorker.handle",
           "gunicorn.http.parser:Parser.__next__", "gunicorn.http.message:Request.parse",
           "gunicorn.http.message:Message.parse_headers", "gunicorn.http.message:Request.parse_request_line",
           "gunicorn.http.message:Message.set_body_reader", "gunicorn.http.message:Request.proxy_protocol"]
STUBS = ["client socket -> RecSock: recv script = head cut at the chosen offset then EOF or OSError(ECONNRESET); "
         "sendall may raise OSError(errno chosen from EPIPE/ECONNRESET/ENOTCONN/EBADF/EIO)",
         "logger -> counting stub; constant clock; gthread via scripted selector + synchronous executor"]
ASSUMPTIONS = ["one representative malformed head per parser exception class (concrete bytes), truncation offset, "
               "disconnect kind and send failure are solver variables"]
OUTSIDE = ["SSL handshake errors", "gevent/eventlet timeouts", "errors raised while the application reads the body "
           "(the request has reached the application by then)"]

H = b"GET / HTTP/1.1\r\n"
BAD = {
    "request_line": (b"GET /\r\n\r\n", {}),
    "method": (b"G<T / HTTP/1.1\r\n\r\n", {}),
    "version": (b"GET / HTTP/2.0\r\n\r\n", {}),
    "header": (H + b"foo\r\n\r\n", {}),
    "header_name": (H + b"fo o: x\r\n\r\n", {}),
    "nul_value": (H + b"a: b\x00c\r\n\r\n", {}),
    "obs_fold": (H + b"a: b\r\n c\r\n\r\n", {}),
    "limit_line": (b"GET /" + b"a" * 30 + b" HTTP/1.1\r\n\r\n", {"limit_request_line": 20}),
    "limit_fields": (H + b"a: 1\r\nb: 2\r\n\r\n", {"limit_request_fields": 1}),
    "limit_field_size": (H + b"a: " + b"x" * 20 + b"\r\n\r\n", {"limit_request_field_size": 10}),
    "te_unknown": (H + b"Transfer-Encoding: foo\r\n\r\n", {}),
    "cl_te": (H + b"Content-Length: 3\r\nTransfer-Encoding: chunked\r\n\r\n", {}),
    "cl_dup": (H + b"Content-Length: 3\r\nContent-Length: 3\r\n\r\nabc", {}),
    "proxy_bad": (b"PROXY nonsense\r\n" + H + b"\r\n", {"proxy_protocol": True, "proxy_allow_ips": "*"}),
    "proxy_forbidden": (b"PROXY TCP4 1.1.1.1 2.2.2.2 1 2\r\n" + H + b"\r\n", {"proxy_protocol": True,
                                                                              "proxy_allow_ips": "127.0.0.1"}),
    "scheme_conflict": (H + b"X-Forwarded-Proto: https\r\nX-Forwarded-Ssl: off\r\n\r\n", {"forwarded_allow_ips": "*"}),
    "script_name": (H + b"Script_Name: /zzz\r\n\r\n", {"forwarded_allow_ips": "*"}),
    "garbage": (b"\x00\xff\x16\x03\x01\r\n\r\n", {}),
    "valid": (H + b"Host: h\r\n\r\n", {}),
}
ERRNOS = [errno.EPIPE, errno.ECONNRESET, errno.ENOTCONN, errno.EBADF, errno.EIO]
GOOD = b"GET /ok HTTP/1.1\r\nHost: h\r\n\r\n"


def _serve(kind, w, c):
    if kind == "gthread":
        W.gthread_serve(w, c)
    else:
        W.run_connection(kind, w, c)


def ladder(cut: int, rst: bool, fail: int, ei: int) -> bool:
    """
    pre: CASE["cutlo"] <= cut <= len(BAD[CASE["req"]][0])
    pre: -1 <= fail <= 1 and 0 <= ei <= 4
    post: __return__
    """
    data, settings = BAD[CASE["req"]]
    kind = CASE["kind"]
    cut = pick(cut, CASE["cutlo"], len(data))
    if CASE["cutlo"] < len(data):
        fail, ei = -1, 0           # truncation cases: healthy socket (send faults are explored on the full head)
    else:
        fail = pick(fail, -1, 1)
        ei = pick(ei, 0, 4)
    calls = []

    def app(environ, start_response):
        calls.append(environ["RAW_URI"])
        start_response("200 OK", [("Content-Length", "2")])
        return [b"ok"]
    cfg = W.make_cfg(**settings)
    mk = {"sync": W.sync_worker, "gthread": W.thread_worker, "async": W.async_worker}[kind]
    w = mk(cfg, app)
    w.log.render = True                       # access logging on: the real Logger.atoms() runs for every record
    truncated = cut < len(data)
    script = [data[:cut]] if cut else []
    if truncated and rst:
        script.append(errno.ECONNRESET)
    # a peer that reset the connection: shutdown() on the socket fails with ENOTCONN; the server still has to close it
    c = RecSock(script, send_fail=(None if fail < 0 else fail), send_errno=ERRNOS[ei],
                shutdown_errno=(errno.ENOTCONN if rst else None))
    _serve(kind, w, c)
    is_valid_full = CASE["req"] == "valid" and not truncated
    if is_valid_full:
        if calls != ["/"]:
            return False
    else:
        if calls:
            return False                      # a rejected / truncated request never reaches the application
        raw = c.wire()
        if raw:
            try:
                rs = hr.parse_stream(raw, [False])
            except hr.Bad:
                return False
            if len(rs) != 1 or rs[0]["end"] != len(raw):
                return False
            r = rs[0]
            if not (400 <= r["code"] <= 599) or r["connection"] != [b"close"]:
                return False
            if r["framing"] != "length" or not r["complete"]:
                return False
    if c.closed < 1:
        return False                          # the server always closes that connection
    if not w.alive:
        return False
    if c.out and not is_valid_full:
        # the error page is written without blocking (a client that does not read must not wedge the worker), and the
        # socket is put back afterwards
        if c.blocking_at_send[-1] not in (0, False) or c.blocking not in (1, True):
            return False
    # the worker serves the next connection normally
    del calls[:]
    c2 = RecSock([GOOD])
    _serve(kind, w, c2)
    try:
        rs = hr.parse_stream(c2.wire(), [False])
    except hr.Bad:
        return False
    return calls == ["/ok"] and len(rs) == 1 and rs[0]["code"] == 200 and rs[0]["body"] == b"ok" and c2.closed >= 1


# ---- a connection that goes away before accept(): the accept loops survive and serve what comes next ---------------------------
def accept_abort(ei: int, loop: int, nbad: int) -> bool:
    """
    pre: 0 <= ei <= 2 and 0 <= loop <= 2 and 1 <= nbad <= 2
    post: __return__
    """
    import signal as _signal
    from types import SimpleNamespace
    import gunicorn.workers.sync as S
    from engine.harness_api import ns
    ei, loop, nbad = pick(ei, 0, 2), pick(loop, 0, 2), pick(nbad, 1, 2)
    err = [errno.ECONNABORTED, errno.EAGAIN, errno.EWOULDBLOCK][ei]
    calls = []

    def app(environ, start_response):
        calls.append(environ["RAW_URI"])
        start_response("200 OK", [("Content-Length", "2")])
        return [b"ok"]
    cfg = W.make_cfg()
    good = RecSock([GOOD])
    script = [err] * nbad + [good]

    def accept():
        if not script:
            w.alive = False                    # nothing more will come: end the loop (as TERM would)
            raise OSError(errno.EAGAIN, "again")
        item = script.pop(0)
        if isinstance(item, int):
            raise OSError(item, "accept failed")
        return item, ("10.0.0.9", 1000)
    if loop == 2:
        # gthread: the real ThreadWorker.accept on a listener whose accept() fails
        w = W.thread_worker(cfg, app)
        w.tpool = W.SyncPool()
        w.poller = W.Poller()
        w.nr_conns = 0
        lst = RecSock(name=("127.0.0.1", 8000))
        lst.accept = accept
        for _ in range(nbad + 1):
            w.accept(lst.getsockname(), lst)
        n = 0
        while good in w.poller.reg and n < 3:
            w.poller.reg[good](good)
            w.futures.clear()
            n += 1
    else:
        w = W.sync_worker(cfg, app)
        lst = RecSock(name=("127.0.0.1", 8000))
        lst.accept = accept
        lst2 = RecSock(name=("127.0.0.1", 8001))
        lst2.accept = lambda: (_ for _ in ()).throw(OSError(errno.EAGAIN, "again"))
        w.sockets = [lst] if loop == 0 else [lst, lst2]
        w.PIPE = [90, 91]
        w.wait_fds = w.sockets + [90]
        w.tmp = SimpleNamespace(notify=lambda: None)
        w.timeout = 1.0
        saved = S.select, S.os, S.util
        S.select = ns("S.select", select=lambda r, w_, x, t: ([s_ for s_ in r if s_ != 90], [], []))
        S.os = ns("S.os", getppid=lambda: 1, read=lambda fd, n: b"")
        S.util = ns("S.util", close_on_exec=lambda fd: None, close=saved[2].close, reraise=saved[2].reraise)
        try:
            if loop == 0:
                w.run_for_one(w.timeout)
            else:
                w.run_for_multiple(w.timeout)
        finally:
            S.select, S.os, S.util = saved
    try:
        rs = hr.parse_stream(good.wire(), [False])
    except hr.Bad:
        return False
    return calls == ["/ok"] and len(rs) == 1 and rs[0]["code"] == 200 and good.closed >= 1


def stall(cut: int) -> bool:
    """
    pre: 0 <= cut < len(GOOD)
    post: __return__
    """
    # keep-alive connection on an async worker: one complete request, then the client sends nothing (or only a prefix of
    # the next request) until the keep-alive timeout fires: nothing more reaches the application, nothing more is sent
    from engine.stubs.recsock import STALL
    cut = pick(cut, 0, len(GOOD) - 1)
    calls = []

    def app(environ, start_response):
        calls.append(environ["RAW_URI"])
        start_response("200 OK", [("Content-Length", "2")])
        return [b"ok"]
    cfg = W.make_cfg(keepalive=2)
    w = W.async_worker(cfg, app)
    first = b"POST /first HTTP/1.1\r\nHost: h\r\nContent-Length: 0\r\n\r\n"
    script = [first] + ([GOOD[:cut]] if cut else []) + [STALL]
    c = RecSock(script)
    W.run_connection("async", w, c)
    try:
        rs = hr.parse_stream(c.wire(), [False, False])
    except hr.Bad:
        return False
    return calls == ["/first"] and len(rs) == 1 and rs[0]["code"] == 200 and c.closed >= 1 and w.alive


def ladder_twin(cut: int, rst: bool, fail: int, ei: int) -> bool:
    """
    pre: CASE["cutlo"] <= cut <= len(BAD[CASE["req"]][0])
    pre: -1 <= fail <= 1 and 0 <= ei <= 4
    post: __return__
    """
    # witness: the full malformed head, healthy socket -> an error response IS produced (and judged by ladder)
    data, settings = BAD[CASE["req"]]
    if not (cut == len(data) and fail < 0):
        return True
    cfg = W.make_cfg(**settings)
    w = W.sync_worker(cfg, lambda e, s: [])
    c = RecSock([data])
    W.run_connection("sync", w, c)
    return len(c.wire()) == 0


# ---- 2. error page with symbolic payloads ----------------------------------------------------------------------
EXC = ["InvalidRequestLine", "InvalidRequestMethod", "InvalidHTTPVersion", "InvalidHeader", "InvalidHeaderName",
       "ObsoleteFolding", "UnsupportedTransferCoding", "LimitRequestHeaders", "InvalidProxyLine",
       "ForbiddenProxyRequest", "ConfigurationProblem", "LimitRequestLine", "InvalidSchemeHeaders", "Generic"]
PREFIX = {400: b"HTTP/1.1 400 Bad Request\r\n", 403: b"HTTP/1.1 403 Forbidden\r\n",
          431: b"HTTP/1.1 431 Request Header Fields Too Large\r\n", 500: None, 501: b"HTTP/1.1 501 Bad Request\r\n"}
REST = b"Connection: close\r\nContent-Type: text/html\r\nContent-Length: "


def mk_exc(name, payload):
    if name == "Generic":
        return ValueError(payload)
    if name == "LimitRequestLine":
        return E.LimitRequestLine(len(payload), 1)
    if name == "InvalidSchemeHeaders":
        return E.InvalidSchemeHeaders()
    return getattr(E, name)(payload)


CHARS = ["a", "<", "&", '"', "'", "\r", "\n", "\x00", "\xff", "\u0100", "%", " ", "\U0001f600", "\udc80"]


def mk_payload(i1, i2, i3):
    n = CASE["n"]
    out = ""
    for k, i in enumerate((i1, i2, i3)):
        if k < n:
            out += CHARS[pick(i, 0, len(CHARS) - 1)]
    return out


def error_page(i1: int, i2: int, i3: int) -> bool:
    """
    pre: 0 <= i1 <= 13 and 0 <= i2 <= 13 and 0 <= i3 <= 13
    post: __return__
    """
    payload = mk_payload(i1, i2, i3)
    name = CASE["exc"]
    cfg = W.make_cfg()
    w = W.sync_worker(cfg, None)
    c = RecSock()
    w.handle_error(None, c, ("10.0.0.9", 1), mk_exc(name, payload))
    if not c.out:
        return True                 # nothing sent (e.g. message not encodable as latin-1): allowed
    if len(c.out) != 1:
        return False
    data = c.out[0]
    # status line + fixed headers, then Content-Length = exact number of body bytes
    i = 0
    n = len(data)
    # find end of status line in the concrete-by-construction head
    sl_end = -1
    for k in range(min(n - 1, 60)):
        if data[k] == 13 and data[k + 1] == 10:
            sl_end = k
            break
    if sl_end < 12:
        return False
    code = (data[9] - 48) * 100 + (data[10] - 48) * 10 + (data[11] - 48)
    if not (400 <= code <= 599):
        return False
    p = sl_end + 2
    if data[p:p + len(REST)] != REST:
        return False
    p += len(REST)
    declared = 0
    nd = 0
    while p < n and 48 <= data[p] <= 57:
        declared = declared * 10 + (data[p] - 48)
        p += 1
        nd += 1
    if nd == 0 or data[p:p + 4] != b"\r\n\r\n":
        return False
    return n - (p + 4) == declared


def error_page_twin(i1: int, i2: int, i3: int) -> bool:
    """
    pre: 0 <= i1 <= 13 and 0 <= i2 <= 13 and 0 <= i3 <= 13
    post: __return__
    """
    payload = mk_payload(i1, i2, i3)
    cfg = W.make_cfg()
    w = W.sync_worker(cfg, None)
    c = RecSock()
    w.handle_error(None, c, ("10.0.0.9", 1), mk_exc(CASE["exc"], payload))
    return not c.out


def _ladder_cases(tier):
    out = []
    reqs = list(BAD)
    for kind in ("sync", "gthread", "async"):
        for r in reqs:
            full = len(BAD[r][0])
            out.append({"kind": kind, "req": r, "cutlo": full})
            if (tier == "thorough") or (kind == "sync" and r in ("header", "cl_te", "valid")) or \
                    (kind != "sync" and r == "cl_te"):
                out.append({"kind": kind, "req": r, "cutlo": 0})
    return out


OBLIGATIONS = [
    Ob("C05.ladder", "ladder", cases={"quick": _ladder_cases("quick"), "thorough": _ladder_cases("thorough")},
       timeout={"quick": 600, "thorough": 2400},
       bound="19 representative heads (one per parser exception class + garbage + valid) x {sync,gthread,async-base}; "
             "full head: send failure at call 0/1/never with errno in {EPIPE,ECONNRESET,ENOTCONN,EBADF,EIO}; truncation at "
             "every offset followed by EOF|ECONNRESET: quick for 3 heads on sync + 1 on gthread/async, thorough for all"),
    Ob("C05.stall", "stall", timeout=600,
       bound="async-base keep-alive loop: one complete request, then any prefix (0..len-1 bytes) of a second one, then the "
             "keep-alive timeout fires inside timeout_ctx()"),
    Ob("C05.ladder.twin", "ladder_twin", cases=[{"kind": "sync", "req": "cl_te", "cutlo": 0}], expect="refute", timeout=300),
    Ob("C05.accept_abort", "accept_abort", timeout=300,
       bound="accept() failing once or twice with ECONNABORTED / EAGAIN / EWOULDBLOCK before a good connection: sync run_for_one, "
             "sync run_for_multiple (2 listeners), gthread accept"),
    Ob("C05.error_page", "error_page",
       cases={"quick": [{"exc": e, "n": 1} for e in EXC] + [{"exc": "Generic", "n": 2}],
              "thorough": [{"exc": e, "n": 2} for e in EXC] + [{"exc": e, "n": 3} for e in ("InvalidHeader", "InvalidRequestLine")]},
       timeout={"quick": 1800, "thorough": 7200}, bound="every exception class handled by Worker.handle_error with a payload of 1 (two classes: 2; thorough 2 / 3) "
                          "characters, each chosen by the solver from 14 representatives {a < & \" ' CR LF NUL 0xFF U+0100 % SP "
                          "U+1F600 lone-surrogate}"),
    Ob("C05.error_page.twin", "error_page_twin", cases=[{"exc": "InvalidHeader", "n": 2}], expect="refute", timeout=120),
]

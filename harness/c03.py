"""C03 - the master keeps exactly the configured number of live workers.

  1 manage     one manage_workers() step from an arbitrary valid pool (inductive step)
  2 reap       one reap_workers() over a symbolic set of zombies / wait statuses (boot-failure halt)
  3 converge   the real Arbiter.run() loop against the simulated kernel: TTIN/TTOU signals, child crashes and
               SIGCHLD delivery at every fork/kill/sleep boundary chosen by a symbolic tape; after the tape is
               exhausted the pool must equal num_workers, no zombie, WORKERS == live set - or the master halted
               with status 3/4 because a worker exited with that code
  4 sigqueue   Arbiter.signal keeps at most 5 and loses none below the cap
"""
import signal
from types import SimpleNamespace
from typing import List

from engine.harness_api import Ob, setup, kf_ok, ns, pick
setup(shim=False)

import gunicorn.arbiter as A  # noqa: E402
from gunicorn.errors import HaltServer  # noqa: E402
from engine.stubs import kernel as KS  # noqa: E402

PROPERTY = "C03"
CASE = {}
KERNELS = ["gunicorn.workers.base:Worker.init_process", "gunicorn.arbiter:Arbiter.run", "gunicorn.arbiter:Arbiter.manage_workers",
           "gunicorn.arbiter:Arbiter.spawn_workers", "gunicorn.arbiter:Arbiter.spawn_worker",
           "gunicorn.arbiter:Arbiter.kill_worker", "gunicorn.arbiter:Arbiter.kill_workers",
           "gunicorn.arbiter:Arbiter.reap_workers", "gunicorn.arbiter:Arbiter.murder_workers",
           "gunicorn.arbiter:Arbiter.handle_chld", "gunicorn.arbiter:Arbiter.handle_ttin",
           "gunicorn.arbiter:Arbiter.handle_ttou", "gunicorn.arbiter:Arbiter.signal",
           "gunicorn.arbiter:Arbiter.sleep", "gunicorn.arbiter:Arbiter.halt", "gunicorn.arbiter:Arbiter.stop"]
STUBS = ["os.fork/kill/waitpid/getpid/getppid/read/write, time.*, select.select, random.random inside "
         "gunicorn.arbiter -> engine/stubs/kernel.py (contract in its docstring)",
         "worker class -> record with age/pid/tmp/aborted; hooks and logging -> no-ops; Arbiter.start() skipped "
         "(object constructed directly); util._setproctitle no-op; sock.close_sockets recorded"]
ASSUMPTIONS = ["SIGCHLD handlers do not nest", "a child that received TERM exits (status 0) by the next sleep",
               "the child branch of spawn_worker (fork() == 0) is not executed here (see C20)"]
OUTSIDE = [">3 workers", "tapes longer than the bound", "real fork/exec/kill", "HUP (see C10)"]


def mk_arbiter(K, num, timeout=2, ages=()):
    """A real Arbiter built by its own __init__/setup() from a stub application (so that attributes a change adds to
    __init__ exist), then given an empty, instance-level process table."""
    hook = lambda *a, **k: None  # noqa: E731
    cfg = SimpleNamespace(pre_fork=hook, nworkers_changed=hook, worker_exit=hook, child_exit=hook,
                          on_exit=hook, reuse_port=False, graceful_timeout=3, daemon=False, workers=num,
                          pidfile=None, env={}, env_orig={}, proc_name="g", logger_class=lambda c: KS.NullLog(),
                          worker_class=KS.worker_class(K), address=[], timeout=timeout, settings={}, preload_app=False)
    app = SimpleNamespace(cfg=cfg, wsgi=lambda: None)
    arb = A.Arbiter(app)
    arb.WORKERS = {}
    arb.LISTENERS = []
    arb.SIG_QUEUE = []
    arb.PIPE = [90, 91]
    arb._last_logged_active_worker_count = None
    arb.worker_age = 0
    arb.pid = 1
    arb.start = lambda: None
    K.arb = arb
    for a in ages:
        pid = K.fork()
        w = arb.worker_class(a, 1, [], None, 1.0, arb.cfg, arb.log)
        w.pid = pid
        arb.WORKERS[pid] = w
        arb.worker_age = max(arb.worker_age, a)
    return arb


def distinct(xs):
    for i in range(len(xs)):
        for j in range(i + 1, len(xs)):
            if xs[i] == xs[j]:
                return False
    return True


# ---- 1. manage_workers: one step from any valid pool ----------------------------------------------------
def manage(ages: List[int], n: int) -> bool:
    """
    pre: len(ages) == CASE["k"] and 0 <= n <= 3
    pre: all(0 < a < 40 for a in ages) and distinct(ages)
    post: __return__
    """
    K = KS.Kernel()
    arb = mk_arbiter(K, n, ages=list(ages))
    undo = KS.install(A, K)
    try:
        arb.manage_workers()
    finally:
        undo()
    termed = [p for p, s in K.sent if s == signal.SIGTERM]
    if any(s != signal.SIGTERM for _, s in K.sent):
        return False
    remaining = [w for p, w in arb.WORKERS.items() if p not in termed]
    if len(remaining) != n:
        return False
    if set(K.procs) != set(arb.WORKERS):
        return False                                # every live child tracked
    for t in termed:
        for w in remaining:
            if not arb.WORKERS[t].age < w.age:
                return False                        # oldest first
    return True


def manage_twin(ages: List[int], n: int) -> bool:
    """
    pre: len(ages) == CASE["k"] and 0 <= n <= 3
    pre: all(0 < a < 40 for a in ages) and distinct(ages)
    post: __return__
    """
    K = KS.Kernel()
    arb = mk_arbiter(K, n, ages=list(ages))
    undo = KS.install(A, K)
    try:
        arb.manage_workers()
    finally:
        undo()
    return len(K.sent) < 2       # witness: two workers retired in one step


# ---- 2. reap_workers ---------------------------------------------------------------------------------------
STATUS_SET = [0, 9, 768, 256, 1024, 15, 512, 6]


def reap(dead: List[bool], st: List[int]) -> bool:
    """
    pre: len(dead) == CASE["k"] and len(st) == CASE["k"]
    pre: all(0 <= s <= 7 for s in st)
    post: __return__
    """
    k = len(dead)
    K = KS.Kernel()
    arb = mk_arbiter(K, k, ages=list(range(1, k + 1)))
    pids = list(K.order)
    for i in range(k):
        if dead[i]:
            K.procs[pids[i]] = ("zombie", STATUS_SET[st[i]])
    undo = KS.install(A, K)
    halted = None
    try:
        try:
            arb.reap_workers()
        except HaltServer as e:
            halted = e.exit_status
    finally:
        undo()
    boot = [STATUS_SET[st[i]] >> 8 for i in range(k) if dead[i] and (STATUS_SET[st[i]] >> 8) in (3, 4)]
    if boot:
        # the first boot-failure status met (pid order) stops the server with that exit status
        return halted == boot[0]
    if halted is not None:
        return False
    live = [pids[i] for i in range(k) if not dead[i]]
    return set(arb.WORKERS) == set(live) and set(K.procs) == set(live)


def reap_twin(dead: List[bool], st: List[int]) -> bool:
    """
    pre: len(dead) == CASE["k"] and len(st) == CASE["k"]
    pre: all(0 <= s <= 7 for s in st)
    post: __return__
    """
    k = len(dead)
    K = KS.Kernel()
    arb = mk_arbiter(K, k, ages=list(range(1, k + 1)))
    pids = list(K.order)
    for i in range(k):
        if dead[i]:
            K.procs[pids[i]] = ("zombie", STATUS_SET[st[i]])
    undo = KS.install(A, K)
    try:
        try:
            arb.reap_workers()
        except HaltServer as e:
            return e.exit_status != 4     # witness: halt with the app-load status
    finally:
        undo()
    return True


# ---- 2b. kill_worker / kill_workers / murder-style snapshots against any tracked/untracked x present/gone combination ------
def kill_step(tracked: List[bool], present: List[bool], which: int, all_: bool) -> bool:
    """
    pre: len(tracked) == CASE["k"] and len(present) == CASE["k"] and 0 <= which < CASE["k"]
    post: __return__
    """
    k = CASE["k"]
    which = pick(which, 0, k - 1)           # keep the pid concrete (it ends up in exception messages)
    K = KS.Kernel()
    arb = mk_arbiter(K, k, ages=list(range(1, k + 1)))
    pids = list(K.order)
    for i in range(k):
        if not tracked[i]:
            del arb.WORKERS[pids[i]]        # e.g. already reaped by a SIGCHLD handler that ran after the caller's snapshot
        if not present[i]:
            del K.procs[pids[i]]            # the process is gone and has been waited for: kill() says ESRCH
    undo = KS.install(A, K)
    try:
        if all_:
            snapshot = list(pids)           # what a caller iterating over an earlier copy would do
            for p in snapshot:
                arb.kill_worker(p, signal.SIGTERM)
        else:
            arb.kill_worker(pids[which], signal.SIGTERM)        # must not raise, whatever the combination
    finally:
        undo()
    for i in range(k):
        touched = all_ or i == which
        if touched and not present[i] and pids[i] in arb.WORKERS:
            return False                    # a worker whose process is gone must not stay tracked after the attempt
        if present[i] and tracked[i] and pids[i] not in arb.WORKERS:
            return False
    return True


# ---- 3. convergence of the real run() loop under schedules ----------------------------------------------
SIGS = [0, int(signal.SIGTTIN), int(signal.SIGTTOU)]


def converge(n0: int, sigs: List[int], tape: List[int], early: List[int], st: List[int]) -> bool:
    """
    pre: 1 <= n0 <= CASE["n0"]
    pre: len(sigs) <= CASE["sigs"] and all(0 <= s <= 2 for s in sigs)
    pre: len(tape) <= CASE["tape"] and all(0 <= e <= 3 for e in tape)
    pre: len(early) <= CASE["early"] and all(0 <= e <= 1 for e in early)
    pre: len(st) <= CASE["st"] and all(0 <= s <= CASE["stmax"] for s in st)
    pre: kf_ok("C03.converge", timeout=CASE["timeout"], early=early, tape=tape)
    post: __return__
    """
    quiet = CASE["quiet"]
    K = KS.Kernel(tape=tape, early=early, statuses=[STATUS_SET[s] for s in st],
                  master_signals=[SIGS[s] for s in sigs], budget=len(sigs) + len(tape) + quiet)
    K.deaf_first_term = bool(CASE.get("deaf"))      # every child loses the first SIGTERM it is sent (still booting)
    arb = mk_arbiter(K, n0, timeout=CASE["timeout"])
    undo = KS.install(A, K)
    A.sock = ns("A.sock", close_sockets=lambda l, u=True: None)
    exit_code = None
    try:
        try:
            arb.run()
        except KS.LoopBudget:
            pass
        except SystemExit as e:
            exit_code = e.code
    finally:
        undo()

    if exit_code is not None:
        # the only legitimate reason to stop: a child exited with the boot-error / app-load-error code
        return exit_code in (3, 4)
    if K.tape or K.master_signals:
        return True                 # schedule not fully consumed within the loop budget: nothing claimed
    live = [p for p in K.order if K.procs.get(p) == "alive"]
    if len(live) != arb.num_workers:
        return False
    if K.zombies() or [p for p in K.order if K.procs.get(p) in ("dying", "aborting", "killed")]:
        return False
    return set(arb.WORKERS) == set(live)


def converge_twin(n0: int, sigs: List[int], tape: List[int], early: List[int], st: List[int]) -> bool:
    """
    pre: 1 <= n0 <= CASE["n0"]
    pre: len(sigs) <= CASE["sigs"] and all(0 <= s <= 2 for s in sigs)
    pre: len(tape) <= CASE["tape"] and all(0 <= e <= 3 for e in tape)
    pre: len(early) <= CASE["early"] and all(0 <= e <= 1 for e in early)
    pre: len(st) <= CASE["st"] and all(0 <= s <= CASE["stmax"] for s in st)
    post: __return__
    """
    quiet = CASE["quiet"]
    K = KS.Kernel(tape=tape, early=early, statuses=[STATUS_SET[s] for s in st],
                  master_signals=[SIGS[s] for s in sigs], budget=len(sigs) + len(tape) + quiet)
    arb = mk_arbiter(K, n0, timeout=CASE["timeout"])
    undo = KS.install(A, K)
    A.sock = ns("A.sock", close_sockets=lambda l, u=True: None)
    try:
        try:
            arb.run()
        except KS.LoopBudget:
            pass
        except SystemExit:
            return True
    finally:
        undo()
    # witness: at least one crash was replaced AND the target changed, and everything was consumed
    respawned = len(K.order) > n0 + 1
    return not (respawned and arb.num_workers != n0 and not K.tape and not K.master_signals)


def converge_twin_early(n0: int, sigs: List[int], tape: List[int], early: List[int], st: List[int]) -> bool:
    """
    pre: 1 <= n0 <= CASE["n0"]
    pre: len(sigs) <= CASE["sigs"] and all(0 <= s <= 2 for s in sigs)
    pre: len(tape) <= CASE["tape"] and all(0 <= e <= 3 for e in tape)
    pre: len(early) <= CASE["early"] and all(0 <= e <= 1 for e in early)
    pre: len(st) <= CASE["st"] and all(0 <= s <= CASE["stmax"] for s in st)
    post: __return__
    """
    # witness: with timeout>0 a child that dies inside fork() is (eventually) replaced: converge holds AND a
    # respawn happened, i.e. the early-death region is reachable and heals
    if not (len(early) == 1 and early[0] == 1 and len(st) == 1 and st[0] == 1):
        return True
    ok = converge(n0, sigs, tape, early, st)
    return not ok


# ---- 3b. a worker that cannot boot exits with the distinct status (child side of spawn_worker) --------------------------
class _Stop(BaseException):
    pass


def boot_fail(point: int, kind: int) -> bool:
    """
    pre: 0 <= point <= 5 and 0 <= kind <= 1
    post: __return__
    """
    import gunicorn.workers.base as WB
    from gunicorn.errors import AppImportError
    point, kind = pick(point, 0, 5), pick(kind, 0, 1)
    K = KS.Kernel()
    arb = mk_arbiter(K, 1)
    order = ["post_fork", "set_owner", "load_wsgi", "post_worker_init", "run", "none"]
    where = order[point]

    def boom(name):
        def f(*a, **k):
            if where == name:
                raise (AppImportError("cannot import app") if kind == 1 else RuntimeError("boom in " + name))
        return f

    class App:
        def wsgi(self_):
            boom("load_wsgi")()
            return lambda e, s: []
    arb.app = App()
    hook = lambda *a, **k: None  # noqa: E731
    arb.cfg.uid = arb.cfg.gid = 0
    arb.cfg.initgroups = False
    arb.cfg.env = {}
    arb.cfg.reload = False
    arb.cfg.post_fork = boom("post_fork")
    arb.cfg.post_worker_init = boom("post_worker_init")
    arb.cfg.max_requests = 0
    arb.cfg.max_requests_jitter = 0

    class TWorker(WB.Worker):
        def run(self_):
            boom("run")()
            raise _Stop()
    arb.worker_class = TWorker
    undo = KS.install(A, K)
    A.os.fork = lambda: 0
    saved = (WB.WorkerTmp, WB.util, WB.os, WB.signal)
    WB.WorkerTmp = lambda cfg: SimpleNamespace(close=lambda: None, fileno=lambda: 9, notify=lambda: None)
    WB.util = ns("WB.util", set_owner_process=boom("set_owner"), seed=lambda: None, set_non_blocking=lambda fd: None,
                 close_on_exec=lambda fd: None)
    WB.os = ns("WB.os", pipe=lambda: (90, 91), environ={}, write=lambda fd, d: None)
    WB.signal = ns("WB.signal", **dict({k: getattr(signal, k) for k in dir(signal) if k.startswith("SIG")},
                                       signal=lambda s, h: None, siginterrupt=lambda s, f: None,
                                       set_wakeup_fd=lambda fd: None))
    saved_print = A.print if hasattr(A, "print") else None
    A.print = lambda *a, **k: None
    code = "no-exit"
    try:
        try:
            arb.spawn_worker()
        except _Stop:
            code = "running"
        except SystemExit as e:
            code = e.code
    finally:
        undo()
        WB.WorkerTmp, WB.util, WB.os, WB.signal = saved
        if saved_print is None:
            del A.print
        else:
            A.print = saved_print
    if where == "none":
        return code == "running"
    if kind == 1:
        return code == A.Arbiter.APP_LOAD_ERROR          # the application could not be loaded: status 4, wherever it surfaced
    if where == "run":
        return code not in (A.Arbiter.WORKER_BOOT_ERROR, A.Arbiter.APP_LOAD_ERROR, 0, "running")
    return code == A.Arbiter.WORKER_BOOT_ERROR            # anything that keeps the worker from reaching its loop: status 3


# ---- 4. SIG_QUEUE cap -----------------------------------------------------------------------------------------
def sigqueue(sigs: List[int]) -> bool:
    """
    pre: len(sigs) <= 7 and all(1 <= s <= 30 for s in sigs)
    post: __return__
    """
    K = KS.Kernel()
    arb = mk_arbiter(K, 1)
    undo = KS.install(A, K)
    try:
        for s in sigs:
            arb.signal(s, None)
    finally:
        undo()
    return arb.SIG_QUEUE == list(sigs)[:5]


def _conv(n0, sigs, tape, early, st, timeout, quiet, stmax=3, deaf=False):
    d = {"n0": n0, "sigs": sigs, "tape": tape, "early": early, "st": st, "timeout": timeout, "quiet": quiet,
         "stmax": stmax}
    if deaf:
        d["deaf"] = True          # every child loses the first SIGTERM sent to it (still booting): the master must re-send
    return d


OBLIGATIONS = [
    Ob("C03.manage", "manage", cases=[{"k": k} for k in (0, 1, 2, 3)], timeout=300,
       bound="pool of 0..3 workers with distinct symbolic ages, target 0..3"),
    Ob("C03.manage.twin", "manage_twin", cases=[{"k": 3}], expect="refute", timeout=60),
    Ob("C03.reap", "reap", cases=[{"k": k} for k in (1, 2, 3)], timeout=300,
       bound="1..3 tracked workers, any subset dead, wait status from {0,9,15,6,256,512,768,1024}"),
    Ob("C03.reap.twin", "reap_twin", cases=[{"k": 2}], expect="refute", timeout=60),
    Ob("C03.kill_step", "kill_step", cases=[{"k": k} for k in (1, 2, 3)], timeout=300,
       bound="kill_worker on 1..3 workers in every tracked/untracked x process present/gone combination (never raises, forgets "
             "workers whose process is gone)"),
    Ob("C03.boot_fail", "boot_fail", timeout=300,
       bound="child side of spawn_worker with a failure injected at post_fork / set_owner_process / load_wsgi / post_worker_init / "
             "run / nowhere, ordinary exception or AppImportError: exit status 3 (cannot boot), 4 (application), other (after boot)"),
    Ob("C03.converge", "converge",
       cases={"quick": [_conv(2, 1, 1, 1, 1, 2, 4), _conv(2, 2, 0, 1, 1, 2, 4), _conv(2, 0, 2, 0, 2, 2, 4, 2),
                        _conv(2, 1, 1, 1, 1, 0, 3), _conv(2, 2, 0, 0, 0, 2, 5, deaf=True)],
              "thorough": [_conv(2, 1, 2, 1, 2, 2, 5), _conv(2, 2, 1, 1, 1, 2, 5), _conv(2, 2, 2, 1, 2, 2, 5, 2),
                           _conv(3, 1, 1, 1, 1, 2, 4), _conv(2, 1, 2, 1, 2, 0, 4), _conv(2, 2, 1, 1, 1, 0, 4),
                           _conv(3, 3, 1, 0, 1, 2, 6, deaf=True)]},
       timeout={"quick": 600, "thorough": 3000},
       bound="run() loop: initial target <=2, <=1..2 TTIN/TTOU, crash tape <=2 (thorough 3) entries over every "
             "kill/sleep boundary, early-death tape <=1 (2) over fork boundaries, timeout in {0,2}s, then 4-5 quiet loops"),
    Ob("C03.converge.twin", "converge_twin", cases=[_conv(2, 1, 2, 0, 1, 2, 5)], expect="refute", timeout=300),
    Ob("C03.converge.twin_early", "converge_twin_early", cases=[_conv(2, 0, 0, 1, 1, 2, 4)], expect="refute", timeout=300),
    Ob("C03.sigqueue", "sigqueue", timeout=120, bound="<=7 signals"),
]

"""C15 - the WSGI environ faithfully reflects the request that was received.

  1 unquote   util.unquote_to_wsgi_str on a symbolic latin-1 string vs an independent percent-decoder
  2 headers   wsgi.create: <=3 headers (names chosen from a small set with repeats, symbolic values): HTTP_*,
              CONTENT_TYPE, CONTENT_LENGTH hold the values sent, repeated fields comma-joined in order
  3 target    the real Request.parse_request_line + wsgi.create on targets built by the solver from representative
              characters in the four target forms: RAW_URI, QUERY_STRING, PATH_INFO / SCRIPT_NAME vs oracles/environ_ref
  4 proto     REQUEST_METHOD and SERVER_PROTOCOL for every accepted method / version pair from representative sets
"""
from types import SimpleNamespace

from engine.harness_api import Ob, setup, kf_ok, pick
setup(shim=True)

from gunicorn.http import wsgi  # noqa: E402
from gunicorn.http.body import Body, LengthReader  # noqa: E402
from gunicorn.http.errors import InvalidHTTPVersion, InvalidRequestLine, InvalidRequestMethod  # noqa: E402
from gunicorn.http.unreader import IterUnreader  # noqa: E402
from gunicorn.util import unquote_to_wsgi_str  # noqa: E402
from engine.stubs.recsock import RecSock  # noqa: E402
from harness.c01 import CFG, mk_req  # noqa: E402
from oracles import environ_ref as ER  # noqa: E402

PROPERTY = "C15"
USES_SHIM = True
CASE = {}
KERNELS = ["gunicorn.util:unquote_to_wsgi_str", "gunicorn.util:split_request_uri", "gunicorn.http.wsgi:create",
           "gunicorn.http.wsgi:default_environ", "gunicorn.http.message:Request.parse_request_line"]
STUBS = ["urllib.parse.unquote_to_bytes -> loop model in engine/ch_ext.py (stdlib version hashes the bytes; validated "
         "differentially against the stdlib)", "sockets -> RecSock; cfg -> attribute namespace"]
ASSUMPTIONS = ["request targets do not contain '#' (a fragment is never part of a request-target) nor SP",
               "obligation 3 builds targets from 20 representative characters rather than all 256 byte values "
               "(urllib.parse.urlsplit hashes its argument for its lru_cache and cannot be followed symbolically)"]
OUTSIDE = ["targets with more than 3 free characters", "authority-form (CONNECT)"]


def lat(s):
    for ch in s:
        if ord(ch) > 255:
            return False
    return True


def unquote(s: str) -> bool:
    """
    pre: len(s) == CASE["n"]
    pre: lat(s)
    post: __return__
    """
    return unquote_to_wsgi_str(s) == ER.percent_decode_latin1(s)


def unquote_twin(s: str) -> bool:
    """
    pre: len(s) == CASE["n"]
    pre: lat(s)
    post: __return__
    """
    return len(unquote_to_wsgi_str(s)) == len(s)        # witness: an escape really is decoded


# ---- 2. header list -> environ -------------------------------------------------------------------------------------
NAMES = ["X-A", "X-B", "CONTENT-TYPE", "CONTENT-LENGTH", "HOST", "X-A"]


def okval(v):
    for ch in v:
        c = ord(ch)
        if c > 255 or c in (0, 10, 13):
            return False
    return True


def env_for(req, cfg=None):
    req.body = Body(LengthReader(IterUnreader([]), 0))
    cfg = cfg or CFG(workers=1, errorlog="-")
    resp, environ = wsgi.create(req, RecSock(), ("10.0.0.1", 1234), ("127.0.0.1", 8000), cfg)
    return environ


def headers(i1: int, i2: int, i3: int, v1: str, v2: str, v3: str) -> bool:
    """
    pre: 0 <= i1 <= 5 and 0 <= i2 <= 5 and 0 <= i3 <= 5
    pre: len(v1) <= CASE["n"] and len(v2) <= CASE["n"] and len(v3) <= CASE["n"]
    pre: okval(v1) and okval(v2) and okval(v3)
    post: __return__
    """
    idx = [pick(i, 0, 5) for i in (i1, i2, i3)[:CASE["k"]]]
    vals = [v1, v2, v3][:CASE["k"]]
    hs = [(NAMES[idx[k]], vals[k]) for k in range(len(idx))]
    r = mk_req(headers=hs)
    r.method, r.uri, r.path, r.query, r.fragment, r.version = "GET", "/", "/", "", "", (1, 1)
    environ = env_for(r)
    want = {}
    for name, v in hs:
        if name == "CONTENT-TYPE":
            want["CONTENT_TYPE"] = v
        elif name == "CONTENT-LENGTH":
            want["CONTENT_LENGTH"] = v
        else:
            key = "HTTP_" + name.replace("-", "_")
            want[key] = (want[key] + "," + v) if key in want else v
    for k, v in want.items():
        if environ.get(k) != v:
            return False
    for k in environ:
        if (k.startswith("HTTP_") or k in ("CONTENT_TYPE", "CONTENT_LENGTH")) and k not in want:
            return False
    return True


VALS2 = ["", "a", "\xe9", "a,b"]


def two_requests(i1: int, i2: int, j1: int, j2: int, app_writes: bool) -> bool:
    """
    pre: 0 <= i1 <= 5 and 0 <= i2 <= 5 and 0 <= j1 <= 3 and 0 <= j2 <= 3
    post: __return__
    """
    # two requests handled by one worker (same Config object, as in a real worker): the second environ reflects the second
    # request only - nothing of the first request, and nothing the application stored in the first environ.
    # CrossHair runs functools.lru_cache'd functions uncached while tracing, which would hide exactly the sharing this
    # obligation is about: the solver picks the (small) inputs, the two requests then run with tracing off.
    from engine.harness_api import untraced as NoTracing
    i1, i2, j1, j2 = pick(i1, 0, 5), pick(i2, 0, 5), pick(j1, 0, 3), pick(j2, 0, 3)
    app_writes = bool(pick(int(app_writes), 0, 1))
    with NoTracing():
        return two_requests_concrete(i1, i2, VALS2[j1], VALS2[j2], app_writes)


def two_requests_concrete(i1, i2, v1, v2, app_writes):
    from engine.stubs import workers as WK
    cfg = WK.make_cfg()                   # the real Config object, one per worker
    r1 = mk_req(headers=[(NAMES[i1], v1)])
    r1.method, r1.uri, r1.path, r1.query, r1.fragment, r1.version = "POST", "/one?q=1", "/one", "q=1", "", (1, 1)
    e1 = env_for(r1, cfg)
    if app_writes:
        e1["myapp.user"] = "alice"
        e1["HTTP_X_INJECTED"] = "1"
    r2 = mk_req(headers=[(NAMES[i2], v2)])
    r2.method, r2.uri, r2.path, r2.query, r2.fragment, r2.version = "GET", "/two", "/two", "", "", (1, 0)
    e2 = env_for(r2, cfg)
    if e2 is e1:
        return False
    name = NAMES[i2]
    key = {"CONTENT-TYPE": "CONTENT_TYPE", "CONTENT-LENGTH": "CONTENT_LENGTH"}.get(name, "HTTP_" + name.replace("-", "_"))
    for k in e2:
        if (k.startswith("HTTP_") or k in ("CONTENT_TYPE", "CONTENT_LENGTH") or k.startswith("myapp.")) and k != key:
            return False
    return (e2.get(key) == v2 and e2["REQUEST_METHOD"] == "GET" and e2["PATH_INFO"] == "/two" and e2["QUERY_STRING"] == ""
            and e2["RAW_URI"] == "/two" and e2["SERVER_PROTOCOL"] == "HTTP/1.0")


def header_value(v: str) -> bool:
    """
    pre: len(v) == CASE["n"]
    pre: okval(v)
    post: __return__
    """
    # the value as sent, through the real parse_headers and wsgi.create: only SP / HTAB around it are not part of it
    r = mk_req()
    r.method, r.uri, r.path, r.query, r.fragment, r.version = "GET", "/", "/", "", "", (1, 1)
    from gunicorn.http.errors import InvalidHeader, InvalidHeaderName, ObsoleteFolding, LimitRequestHeaders
    try:
        r.headers = r.parse_headers(b"X-A:" + v.encode("latin-1"))
    except (InvalidHeader, InvalidHeaderName, ObsoleteFolding, LimitRequestHeaders):
        return True
    environ = env_for(r)
    lo, hi = 0, len(v)
    while lo < hi and (v[lo] == " " or v[lo] == "\t"):
        lo += 1
    while hi > lo and (v[hi - 1] == " " or v[hi - 1] == "\t"):
        hi -= 1
    return environ.get("HTTP_X_A") == v[lo:hi]


# ---- 3. target forms ----------------------------------------------------------------------------------------------------
REP = ["a", "/", "?", "%", "4", "1", "F", "g", ":", "@", ";", ".", "\xe9", "*", "=", "&", "\t", "\r", "\n", "\x01",
       "\x7f", "[", "+", "\\"]
FORMS = ["/", "//", "http://h/", "/p/", "*", "\x01/", "/\x1f"]


def build(ci):
    out = ""
    for i in ci:
        out += REP[i]
    return out


def target(c1: int, c2: int, c3: int) -> bool:
    """
    pre: 0 <= c1 < len(REP) and 0 <= c2 < len(REP) and 0 <= c3 < len(REP)
    pre: kf_ok("C15.target", c1=c1, c2=c2, c3=c3, n=CASE["n"], REP=REP)
    post: __return__
    """
    n = CASE["n"]
    ci = [pick(c, 0, len(REP) - 1) for c in (c1, c2, c3)[:n]]
    t = FORMS[CASE["form"]] + build(ci)
    if FORMS[CASE["form"]] == "*":
        t = "*"                                       # asterisk-form stands alone
    r = mk_req()
    line = b"GET " + t.encode("latin-1") + b" HTTP/1.1"
    try:
        r.parse_request_line(line)
    except (InvalidRequestLine, InvalidRequestMethod, InvalidHTTPVersion):
        return True                                   # not accepted: nothing to be faithful to
    environ = env_for(r)
    if environ["RAW_URI"] != t or environ["REQUEST_METHOD"] != "GET" or environ["SERVER_PROTOCOL"] != "HTTP/1.1":
        return False
    if not (t.startswith("/") or t.startswith("http://") or t == "*"):
        return False                                  # not one of the request-target forms: must not be accepted here
    path, query = ER.split_target(t)
    if environ["QUERY_STRING"] != query:
        return False
    if environ["SCRIPT_NAME"] != "":
        return False
    return environ["PATH_INFO"] == ER.percent_decode_latin1(path)


def target_twin(c1: int, c2: int, c3: int) -> bool:
    """
    pre: 0 <= c1 < len(REP) and 0 <= c2 < len(REP) and 0 <= c3 < len(REP)
    post: __return__
    """
    n = CASE["n"]
    ci = [pick(c, 0, len(REP) - 1) for c in (c1, c2, c3)[:n]]
    t = FORMS[CASE["form"]] + build(ci)
    r = mk_req()
    try:
        r.parse_request_line(b"GET " + t.encode("latin-1") + b" HTTP/1.1")
    except (InvalidRequestLine, InvalidRequestMethod, InvalidHTTPVersion):
        return True
    environ = env_for(r)
    return not (environ["QUERY_STRING"] != "" and "%" in t)


# ---- 3b. SCRIPT_NAME from the environment (raw_env / --env puts it into os.environ when the arbiter is set up, i.e. after
#          gunicorn.http.wsgi has been imported) -----------------------------------------------------------------------------
# (prefixes that end in '/' and paths that share only part of a segment with the prefix are left out: how those are split is
# not something the property fixes)
SCRIPTS = ["", "/app", "/a%20b"]
PATHS = ["/app/x", "/app", "/other", "/app/caf%E9", "/a%20b/c"]


def script_name(si: int, pi: int, si2: int) -> bool:
    """
    pre: 0 <= si < len(SCRIPTS) and 0 <= pi < len(PATHS) and 0 <= si2 < len(SCRIPTS)
    post: __return__
    """
    import os
    from gunicorn.http.errors import ConfigurationProblem
    si, pi, si2 = pick(si, 0, len(SCRIPTS) - 1), pick(pi, 0, len(PATHS) - 1), pick(si2, 0, len(SCRIPTS) - 1)
    saved = os.environ.get("SCRIPT_NAME")
    try:
        # two requests: the configured value may change between them (a reload applies a new raw_env)
        for sn in (SCRIPTS[si], SCRIPTS[si2]):
            if sn:
                os.environ["SCRIPT_NAME"] = sn
            else:
                os.environ.pop("SCRIPT_NAME", None)
            path = PATHS[pi]
            r = mk_req()
            r.parse_request_line(b"GET " + path.encode("latin-1") + b"?q=1 HTTP/1.1")
            try:
                environ = env_for(r)
            except ConfigurationProblem:
                if path.startswith(sn):
                    return False
                continue
            if not path.startswith(sn):
                return False                      # a path outside the configured prefix cannot be split
            if environ["SCRIPT_NAME"] != sn or environ["PATH_INFO"] != ER.percent_decode_latin1(path[len(sn):]):
                return False
            if environ["RAW_URI"] != path + "?q=1" or environ["QUERY_STRING"] != "q=1":
                return False
    finally:
        if saved is None:
            os.environ.pop("SCRIPT_NAME", None)
        else:
            os.environ["SCRIPT_NAME"] = saved
    return True


# ---- 4. method / protocol ---------------------------------------------------------------------------------------------------
METHODS = ["GET", "POST", "OPTIONS", "M-SEARCH", "PRI", "X_Y", "PURGE", "get", "G"]
VERS = ["HTTP/1.0", "HTTP/1.1", "HTTP/1.9", "HTTP/2.0", "HTTP/0.9", "HTTP/1.10", "http/1.1", "HTTP/1.01", "HTTP/01.1", "HTTP/1.00",
        "HTTP/1.1 ", "HTTP/1."]


def proto(mi: int, vi: int) -> bool:
    """
    pre: 0 <= mi < len(METHODS) and 0 <= vi < len(VERS)
    post: __return__
    """
    m, v = METHODS[pick(mi, 0, len(METHODS) - 1)], VERS[pick(vi, 0, len(VERS) - 1)]
    r = mk_req()
    try:
        r.parse_request_line(("%s /x %s" % (m, v)).encode())
    except (InvalidRequestLine, InvalidRequestMethod, InvalidHTTPVersion):
        return True
    environ = env_for(r)
    return environ["REQUEST_METHOD"] == m and environ["SERVER_PROTOCOL"] == v and environ["RAW_URI"] == "/x"


OBLIGATIONS = [
    Ob("C15.unquote", "unquote", cases={"quick": [{"n": n} for n in (0, 1, 2, 3)], "thorough": [{"n": n} for n in (0, 1, 2, 3, 4, 5)]},
       timeout=1800, bound="path of 0..3 (thorough 5) arbitrary latin-1 characters"),
    Ob("C15.unquote.twin", "unquote_twin", cases=[{"n": 3}], expect="refute", timeout=120),
    Ob("C15.headers", "headers", cases={"quick": [{"k": 2, "n": 1}, {"k": 3, "n": 0}], "thorough": [{"k": 3, "n": 1}, {"k": 2, "n": 2}]},
       timeout={"quick": 900, "thorough": 3000},
       bound="2 (thorough 3) headers with names from {X-A, X-B, Content-Type, Content-Length, Host} incl. repeats, values of "
             "<=1 (thorough 2) arbitrary field-value characters"),
    Ob("C15.two_requests", "two_requests", timeout=600,
       bound="two consecutive requests in one worker (same Config object), one header each from 6 names x 4 values, "
             "application writing to the first environ or not; executed untraced after the solver picked the inputs"),
    Ob("C15.header_value", "header_value", cases={"quick": [{"n": 1}, {"n": 2}], "thorough": [{"n": 1}, {"n": 2}, {"n": 3}]},
       timeout={"quick": 900, "thorough": 3000},
       bound="one header whose value is 1..2 (thorough 3) arbitrary field-value characters, through the real parse_headers"),
    Ob("C15.target", "target",
       cases={"quick": [{"form": f, "n": 2} for f in range(4)] + [{"form": f, "n": 1} for f in (4, 5, 6)],
              "thorough": [{"form": f, "n": 3} for f in range(4)] + [{"form": f, "n": 2} for f in (4, 5, 6)]},
       timeout={"quick": 900, "thorough": 3000},
       bound="target = one of {'/', '//', 'http://h/', '/p/'} + 2 (thorough 3) characters chosen from 24 representatives; '*'; "
             "targets starting with a control character + 1 (2) representatives "
             "(letters, / ? % hex, : @ ; . 0xE9 * = & TAB CR LF 0x01 0x7F [ + backslash)"),
    Ob("C15.target.twin", "target_twin", cases=[{"form": 0, "n": 3}], expect="refute", timeout=300),
    Ob("C15.proto", "proto", timeout=300, bound="9 methods x 12 version spellings (incl. leading zeros, trailing SP)"),
    Ob("C15.script_name", "script_name", timeout=300,
       bound="SCRIPT_NAME set in os.environ after import from 3 values (changing between two requests) x 5 request paths"),
]

"""C06 - parsing does not depend on how bytes are split across reads (2-safety, per kernel).

Each obligation runs the same real kernel on [data] and on data cut at solver-chosen positions into 2 or 3 non-empty
reads and compares (result, exception class, logical residue = bytes pushed back + bytes not yet read).
"""
from typing import List

from engine.harness_api import Ob, setup, pick
setup(shim=True)

from gunicorn.http.body import Body, ChunkedReader, LengthReader  # noqa: E402
from gunicorn.http.errors import (ChunkMissingTerminator, InvalidChunkSize, LimitRequestHeaders,  # noqa: E402
                                  LimitRequestLine, NoMoreData)
from gunicorn.http.message import Request  # noqa: E402
from gunicorn.http.unreader import IterUnreader  # noqa: E402
from harness.c01 import CFG, mk_req  # noqa: E402

PROPERTY = "C06"
USES_SHIM = True
CASE = {}
KERNELS = ["gunicorn.http.unreader:Unreader.read", "gunicorn.http.unreader:Unreader.unread",
           "gunicorn.http.unreader:IterUnreader.chunk", "gunicorn.http.message:Request.read_line",
           "gunicorn.http.message:Request.parse", "gunicorn.http.message:Request.get_data",
           "gunicorn.http.body:ChunkedReader.parse_chunk_size", "gunicorn.http.body:ChunkedReader.parse_chunked",
           "gunicorn.http.body:ChunkedReader.parse_trailers", "gunicorn.http.body:ChunkedReader.read",
           "gunicorn.http.body:LengthReader.read", "gunicorn.http.body:Body.read", "gunicorn.http.body:Body.readline"]
STUBS = ["io.BytesIO -> PyBytesIO (symbolic runs only)", "network reads -> IterUnreader over the list of pieces",
         "in the header-block obligation parse_request_line / proxy_protocol / parse_headers are opaque recorders "
         "(they do not read from the socket); max_buffer_headers is set out of reach there (the cap itself is C12)"]
ASSUMPTIONS = ["pieces are non-empty; at most 3 pieces per obligation - more pieces follow inductively from the "
               "Unreader obligation (the logical stream is preserved by every read/unread)"]
OUTSIDE = ["data longer than the per-obligation bound (except the chunk-size line limit, C06.cap_seg)", "8192-byte reads (segment size does not occur below SocketUnreader.chunk)"]


def pieces(data, c1, c2):
    out = []
    for p in (data[:c1], data[c1:c2], data[c2:]):
        if len(p):
            out.append(p)
    return out


def drain(u):
    rest = b""
    d = u.read()
    while d:
        rest = rest + d
        d = u.read()
    return rest


# ---- kernels -----------------------------------------------------------------------------------------------------
def k_unreader(chunks, ks):
    """the way every caller in gunicorn.http uses the Unreader: read() with no size, consume a prefix of what came
    back, push the rest back with unread() before the next read().  The consumed stream + what is left must be the
    original byte stream whatever the segmentation."""
    u = IterUnreader(list(chunks))
    consumed = b""
    for k in ks:
        d = u.read()
        keep = d[:k]
        consumed = consumed + keep
        u.unread(d[len(keep):])
    return (consumed + drain(u),)


def k_read_line(chunks, limit):
    from engine.shim import PyBytesIO
    import io
    u = IterUnreader(list(chunks))
    r = mk_req()
    buf = PyBytesIO() if _symbolic() else io.BytesIO()
    try:
        r.get_data(u, buf, stop=True)
        line, rest = r.read_line(u, buf, limit)
    except StopIteration:
        return ("stop",)
    except NoMoreData:
        return ("nomore",)
    except LimitRequestLine:
        return ("limit",)
    return ("ok", line, rest + drain(u))


def _symbolic():
    from engine.harness_api import SYMBOLIC
    return SYMBOLIC


class _R(Request):
    def parse_request_line(self, line):
        self.rec_line = line

    def proxy_protocol(self, line):
        return False

    def parse_headers(self, data, from_trailer=False):
        self.rec_headers = data
        return [("X", "y")]


def k_head(chunks, limit):
    u = IterUnreader(list(chunks))
    r = object.__new__(_R)
    r.cfg = CFG()
    r.unreader = u
    r.limit_request_line = limit
    r.max_buffer_headers = 1 << 30
    r.rec_line = r.rec_headers = None
    r.headers = []
    try:
        ret = r.parse(u)
    except StopIteration:
        return ("stop",)
    except NoMoreData:
        return ("nomore",)
    except LimitRequestLine:
        return ("limit",)
    except LimitRequestHeaders:
        return ("limit_headers",)
    return ("ok", r.rec_line, r.rec_headers, ret + drain(u))


class _RT(Request):
    def parse_headers(self, data, from_trailer=False):
        self.rec = data
        return [("T", "v")]


def k_chunk_size(chunks):
    u = IterUnreader(list(chunks))
    r = object.__new__(_RT)
    r.rec = None
    r.trailers = []
    r.max_buffer_headers = 1 << 30
    cr = object.__new__(ChunkedReader)
    cr.req = r
    try:
        size, rest = cr.parse_chunk_size(u)
    except InvalidChunkSize:
        return ("badsize",)
    except NoMoreData:
        return ("nomore",)
    return ("ok", size, (rest or b"") + drain(u), r.rec)


def k_chunked(chunks):
    u = IterUnreader(list(chunks))
    r = object.__new__(_RT)
    r.rec = None
    r.trailers = []
    r.max_buffer_headers = 1 << 30
    body = Body(ChunkedReader(r, u))
    got = b""
    try:
        d = body.read(1024)
        while d:
            got = got + d
            d = body.read(1024)
    except InvalidChunkSize:
        return ("badsize", got)
    except ChunkMissingTerminator:
        return ("noterm", got)
    except NoMoreData:
        return ("nomore", got)
    return ("ok", got, r.rec, drain(u))


def k_trailers(chunks):
    u = IterUnreader(list(chunks))
    r = object.__new__(_RT)
    r.rec = None
    r.trailers = []
    r.max_buffer_headers = 1 << 30
    cr = object.__new__(ChunkedReader)
    cr.req = r
    first = u.read()
    try:
        cr.parse_trailers(u, first)
    except NoMoreData:
        return ("nomore",)
    return ("ok", r.rec, r.trailers, drain(u))


def k_length(chunks, n, sizes):
    u = IterUnreader(list(chunks))
    body = Body(LengthReader(u, n))
    out = []
    for s in sizes:
        out.append(body.read(s))
    return (out, drain(u))


def k_readline(chunks, n, sizes):
    u = IterUnreader(list(chunks))
    body = Body(LengthReader(u, n))
    out = []
    for s in sizes:
        out.append(body.readline(s))
    return (out, drain(u))


def run_kernel(chunks, a, b):
    k = CASE["kernel"]
    if k == "unreader":
        return k_unreader(chunks, [a, b, a])
    if k == "read_line":
        return k_read_line(chunks, a)
    if k == "head":
        return k_head(chunks, a)
    if k == "chunk_size":
        return k_chunk_size(chunks)
    if k == "chunked":
        return k_chunked([CASE["prefix"].encode() + chunks[0]] + list(chunks[1:])) if chunks else k_chunked([])
    if k == "trailers":
        pre = CASE.get("prefix", "").encode()
        return k_trailers(([pre + chunks[0]] + list(chunks[1:])) if (pre and chunks) else chunks)
    if k == "length":
        return k_length(chunks, a, [b, 1, 9])
    if k == "readline":
        return k_readline(chunks, a, [b, 9])
    raise AssertionError(k)


def seg(data: bytes, c1: int, c2: int, a: int, b: int) -> bool:
    """
    pre: len(data) == CASE["n"]
    pre: 0 < c1 <= c2 <= len(data)
    pre: c2 == len(data) or CASE["cuts"] == 2
    pre: CASE["alo"] <= a <= CASE["ahi"] and CASE["blo"] <= b <= CASE["bhi"]
    post: __return__
    """
    n = CASE["n"]
    c1 = pick(c1, 1, n)
    c2 = pick(c2, c1, n)
    a = pick(a, CASE["alo"], CASE["ahi"])
    b = pick(b, CASE["blo"], CASE["bhi"])
    whole = run_kernel([data], a, b)
    split = run_kernel(pieces(data, c1, c2), a, b)
    return whole == split


def seg_twin(data: bytes, c1: int, c2: int, a: int, b: int) -> bool:
    """
    pre: len(data) == CASE["n"]
    pre: 0 < c1 <= c2 <= len(data)
    pre: c2 == len(data) or CASE["cuts"] == 2
    pre: CASE["alo"] <= a <= CASE["ahi"] and CASE["blo"] <= b <= CASE["bhi"]
    post: __return__
    """
    # witness: a split run whose outcome is an accepted ("ok"/non-empty) result while a delimiter straddles the cut
    if c1 >= len(data):
        return True
    split = run_kernel(pieces(data, c1, c2), a, b)
    k = CASE["kernel"]
    if k == "unreader":
        return not (len(split[0]) > 0)
    if k in ("length", "readline"):
        return not (len(split[0][0]) > 0)
    return not (split[0] == "ok" and data[c1 - 1] == 13 and data[c1] == 10)


# ---- end to end: the real RequestParser over concrete streams, every single cut + small double cuts + byte by byte ---------
_PL = b"PROXY TCP4 192.168.0.1 192.168.0.11 56324 443\r\n"            # 47 bytes with its CRLF
_G = b"GET /a?b=c HTTP/1.1\r\nHost: h\r\nX-A: 1\r\n\r\n"
_CH = (b"POST /up HTTP/1.1\r\nHost: h\r\nTransfer-Encoding: chunked\r\n\r\n5 ;x=y\r\nhello\r\n3\r\nabc\r\n0\r\nT: v\r\n\r\n"
       b"GET /next HTTP/1.1\r\nHost: h\r\n\r\n")
_CL = b"POST /len HTTP/1.1\r\nHost: h\r\nContent-Length: 5\r\n\r\nhelloGET /after HTTP/1.1\r\nHost: h\r\n\r\n"
REAL_STREAMS = [
    (_PL + _G, {"proxy_protocol": True, "proxy_allow_ips": "*"}),
    (_PL + _G, {"proxy_protocol": True, "proxy_allow_ips": "*", "limit_request_line": 40}),     # PROXY line longer than the limit
    (_PL + _G, {"proxy_protocol": True, "proxy_allow_ips": "*", "limit_request_line": 46}),
    (_G, {"proxy_protocol": True, "proxy_allow_ips": "*", "limit_request_line": 19}),           # request line exactly at / over the limit
    (_CH, {}),
    (_CL, {}),
    (b"\r\n" + _G, {}),                                                                          # stray CRLF ahead of the request line
    (b"GET / HTTP/1.1\r\nA: 1\r\n B\r\n\r\n", {}),                                                # obsolete folding: rejected wherever it is cut
    (b"POST / HTTP/1.1\r\nTransfer-Encoding: chunked\r\n\r\n1\r\nab\r\n0\r\n\r\n", {}),            # missing chunk terminator
]


def _outcome(chunks, settings):
    from gunicorn.http.parser import RequestParser
    from engine.stubs import workers as WK
    cfg = WK.make_cfg(**settings)
    out = []
    p = RequestParser(cfg, iter(list(chunks)), ("127.0.0.1", 5000))
    try:
        for _ in range(4):
            req = next(p)
            body = req.body.read()
            out.append((req.method, req.uri, tuple(req.headers), tuple(req.trailers), body,
                        tuple(sorted((req.proxy_protocol_info or {}).items()))))
    except StopIteration:
        out.append("end")
    except Exception as e:                    # noqa: B902 - the class of the rejection is part of the observable outcome
        out.append(type(e).__name__)
    return out


def seg_real(ti: int, c1: int, d: int) -> bool:
    """
    pre: 0 <= ti < len(REAL_STREAMS) and 0 <= d <= 3
    pre: 1 <= c1 < len(REAL_STREAMS[CASE["ti"]][0])
    pre: ti == CASE["ti"]
    post: __return__
    """
    ti = CASE["ti"]
    data, settings = REAL_STREAMS[ti]
    n = len(data)
    c1, d = pick(c1, 1, n - 1), pick(d, 0, 3)
    if d == 3:
        chunks = [data[i:i + 1] for i in range(n)] if c1 == 1 else None
        if chunks is None:
            return True
    elif d == 0 or c1 + d >= n:
        chunks = [data[:c1], data[c1:]]
    else:
        chunks = [data[:c1], data[c1:c1 + d], data[c1 + d:]]
    return _outcome(chunks, settings) == _outcome([data], settings)


def _case(kernel, n, cuts, a=(0, 0), b=(0, 0), **kw):
    d = {"kernel": kernel, "n": n, "cuts": cuts, "alo": a[0], "ahi": a[1], "blo": b[0], "bhi": b[1]}
    d.update(kw)
    return d


def _cases(tier):
    q = tier == "quick"
    cs = []
    for n in ((2, 3) if q else (2, 3, 4)):
        cs.append(_case("unreader", n, 2, a=(0, n + 1), b=(0, 2)))
    for n in ((2, 3, 4) if q else (2, 3, 4, 5)):
        cs.append(_case("read_line", n, 1 if n > 3 and q else 2, a=(0, 3)))
    for n in ((2, 3, 4, 5) if q else (2, 3, 4, 5, 6)):
        cs.append(_case("head", n, 1 if n >= 5 else 2, a=(0, 3)))
    for n in ((2, 3, 4) if q else (2, 3, 4, 5)):
        cs.append(_case("chunk_size", n, 1 if n >= 4 else 2))
    for n in ((2, 3, 4) if q else (2, 3, 4, 5, 6)):
        cs.append(_case("chunked", n, 1 if n >= 4 else 2, prefix="1\r\n"))
    for n in ((3, 4) if q else (3, 4, 5, 6)):
        cs.append(_case("chunked", n, 1, prefix="2\r\n"))
    for n in ((2, 3, 4) if q else (2, 3, 4, 5, 6)):
        cs.append(_case("trailers", n, 1 if n >= 4 else 2))
    for n in ((3, 4) if q else (3, 4, 5, 6)):
        cs.append(_case("trailers", n, 1, prefix="T:v\r"))       # a non-empty trailer field precedes the symbolic bytes
    for n in ((2, 3) if q else (2, 3, 4, 5)):
        cuts = (2 if n <= 2 else 1) if q else (2 if n <= 3 else 1)
        cs.append(_case("length", n, cuts, a=(0, n + 1), b=(0, n + 1)))
        cs.append(_case("readline", n, cuts, a=(0, n + 1), b=(0, n + 1)))
    return cs


# ---- the chunk-size line limit: the verdict on a line near the limit does not depend on the cut (fix 2d6d3af) -------------
def _cap_stream(dl):
    from gunicorn.http import body as _body
    cap = getattr(_body, "MAX_CHUNK_SIZE_LINE", 8190)
    n = cap + dl                                     # length of the chunk-size line without its CRLF
    return cap, n, b"5;" + b"a" * (n - 2) + b"\r\n" + b"hello\r\n"


def _cap_cut(cap, n, total, i):
    return [1, 4096, cap - 1, cap, cap + 1, cap + 2, n - 1, n, n + 1, n + 2, total - 1][i]


def cap_seg(c1: int, c2: int) -> bool:
    """
    pre: 0 <= c1 <= 10 and 0 <= c2 <= 10
    post: __return__
    """
    cap, n, stream = _cap_stream(CASE["dl"])
    outs = []
    for c in (_cap_cut(cap, n, len(stream), pick(c1, 0, 10)), _cap_cut(cap, n, len(stream), pick(c2, 0, 10))):
        if not 0 < c < len(stream) or c > 8192 or len(stream) - c > 8192:
            return True                              # reads are non-empty and at most 8192 bytes
        outs.append(k_chunk_size([stream[:c], stream[c:]]))
    return outs[0] == outs[1]


def cap_seg_twin(c1: int, c2: int) -> bool:
    """
    pre: 0 <= c1 <= 10 and 0 <= c2 <= 10
    post: __return__
    """
    cap, n, stream = _cap_stream(CASE["dl"])
    c = _cap_cut(cap, n, len(stream), pick(c1, 0, 10))
    if not 0 < c < len(stream) or c > 8192 or len(stream) - c > 8192:
        return True
    return k_chunk_size([stream[:c], stream[c:]])[0] == "ok"      # refuted: a line above the limit is refused


OBLIGATIONS = [
    Ob("C06.seg", "seg", cases={"quick": _cases("quick"), "thorough": _cases("thorough")},
       timeout={"quick": 600, "thorough": 2400},
       bound="kernels {Unreader program, read_line, header-block scan, parse_chunk_size, chunked body via Body.read, "
             "parse_trailers, LengthReader via Body.read/readline}; data of 2..4/5 (thorough ..6) arbitrary bytes; 1-2 cuts "
             "at arbitrary positions; limits/sizes symbolic in small ranges"),
    Ob("C06.seg_real", "seg_real", cases=[{"ti": i} for i in range(9)], timeout=900,
       bound="the real RequestParser over 9 concrete streams (PROXY line with 3 request-line limits, request line at its limit, chunked "
             "with extension / trailers / pipelined follower, Content-Length with follower, leading CRLF, folding, missing chunk CRLF): "
             "every single cut, every cut followed by a 1- or 2-byte piece, and byte-by-byte, against the unsplit feed"),
    Ob("C06.cap_seg", "cap_seg", cases=[{"dl": d} for d in (-3, -2, -1, 0, 1, 2, 3)], timeout=900,
       bound="chunk-size line (size + extension) of MAX_CHUNK_SIZE_LINE-3 .. +3 bytes followed by chunk data, fed as two reads: every "
             "pair of cut positions from {1, 4096, cap-1..cap+2, line end-1..+2, last byte} with both reads <= 8192 bytes gives the same outcome"),
    Ob("C06.cap_seg.twin", "cap_seg_twin", cases=[{"dl": 2}], expect="refute", timeout=120),
    Ob("C06.seg.twin", "seg_twin", cases=[_case("read_line", 4, 1, a=(0, 3)), _case("head", 5, 1, a=(0, 3)),
                                          _case("chunk_size", 4, 1), _case("trailers", 4, 1),
                                          _case("length", 3, 1, a=(0, 4), b=(0, 4))],
       expect="refute", timeout=300),
]

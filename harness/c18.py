"""C18 - max_requests recycles workers without losing requests.

  1 limit     the real Worker.__init__: max_requests + randint(0, jitter) (randint returns a solver value), 0 = never
  2 count     k sequential connections through the real handle() of sync / gthread / async-base with a symbolic limit:
              alive after the j-th request iff j < limit; every request up to and including the limit-reaching one gets
              a complete response; on keep-alive workers the limit-reaching response says Connection: close
  3 keepalive several requests on ONE keep-alive connection (gthread, async-base): the connection is closed by the
              limit-reaching response, nothing after it is answered by this worker
  4 sync_loop the real SyncWorker.run_for_one with a listener offering k connections: exactly min(k, limit) are accepted
              and answered, then the loop ends
Respawning the exited worker is C03.
"""
import errno
import sys
from types import SimpleNamespace

from engine.harness_api import Ob, setup, pick, ns
setup(shim=False)

import gunicorn.workers.base as WB  # noqa: E402
import gunicorn.workers.sync as S  # noqa: E402
from engine.stubs import workers as W  # noqa: E402
from engine.stubs.recsock import RecSock  # noqa: E402
from oracles import http_response as hr  # noqa: E402

W.install_clock()

PROPERTY = "C18"
CASE = {}
KERNELS = ["gunicorn.workers.base:Worker.__init__", "gunicorn.workers.sync:SyncWorker.handle_request",
           "gunicorn.workers.sync:SyncWorker.run_for_one", "gunicorn.workers.sync:SyncWorker.run_for_multiple", "gunicorn.workers.gthread:ThreadWorker.handle_request",
           "gunicorn.workers.gthread:ThreadWorker.handle", "gunicorn.workers.gthread:ThreadWorker.finish_request",
           "gunicorn.workers.base_async:AsyncWorker.handle_request", "gunicorn.workers.base_async:AsyncWorker.handle"]
STUBS = ["sockets -> RecSock", "WorkerTmp -> no-op record", "random.randint inside gunicorn.workers.base -> solver value in range",
         "gthread: scripted selector + synchronous executor (one request at a time; in-flight overlap is C13/C04)"]
ASSUMPTIONS = ["requests are served one after another"]
OUTSIDE = ["gevent/eventlet pools", "concurrent in-flight requests of gthread"]

REQ = b"GET /a HTTP/1.1\r\nHost: h\r\n\r\n"


def limit(mr: int, jitter: int, j: int) -> bool:
    """
    pre: 0 <= mr <= 5 and 0 <= jitter <= 3 and 0 <= j <= jitter
    post: __return__
    """
    calls = []

    def randint(a, b):
        calls.append((a, b))
        return j
    saved = WB.randint, WB.WorkerTmp
    WB.randint = randint
    WB.WorkerTmp = lambda cfg: SimpleNamespace()
    try:
        cfg = SimpleNamespace(max_requests=mr, max_requests_jitter=jitter)
        w = WB.Worker(1, 1, [], None, 15, cfg, None)
    finally:
        WB.randint, WB.WorkerTmp = saved
    if mr == 0:
        return w.max_requests == sys.maxsize and w.alive and w.nr == 0
    return calls == [(0, jitter)] and w.max_requests == mr + j and w.alive and w.nr == 0


def _app(calls):
    def app(environ, start_response):
        calls.append(environ["RAW_URI"])
        start_response("200 OK", [("Content-Length", "2")])
        return [b"ok"]
    return app


def _one(rs):
    return len(rs) == 1 and rs[0]["complete"] and rs[0]["body"] == b"ok" and rs[0]["code"] == 200


def count(lim: int, k: int) -> bool:
    """
    pre: 0 <= lim <= CASE["lim"] and 1 <= k <= CASE["k"]
    post: __return__
    """
    lim, k = pick(lim, 0, CASE["lim"]), pick(k, 1, CASE["k"])
    kind = CASE["kind"]
    calls = []
    cfg = W.make_cfg(keepalive=CASE["keepalive"])
    mk = {"sync": W.sync_worker, "gthread": W.thread_worker, "async": W.async_worker}[kind]
    w = mk(cfg, _app(calls), max_requests=(lim if lim > 0 else sys.maxsize))
    for j in range(1, k + 1):
        if not w.alive:
            break                               # a worker that is no longer alive accepts no further work
        c = RecSock([REQ])
        if kind == "gthread":
            W.gthread_serve(w, c)
        else:
            W.run_connection(kind, w, c)
        try:
            rs = hr.parse_stream(c.wire(), [False])
        except hr.Bad:
            return False
        if not _one(rs) or c.closed < 1:
            return False
        if w.alive != (lim == 0 or j < lim):
            return False
        if lim and j == lim and rs[0]["connection"] != [b"close"]:
            return False
    served = len(calls)
    return served == (k if lim == 0 else min(k, lim))


def keepalive_conn(lim: int, k: int) -> bool:
    """
    pre: 1 <= lim <= CASE["lim"] and 1 <= k <= CASE["k"]
    post: __return__
    """
    lim, k = pick(lim, 1, CASE["lim"]), pick(k, 1, CASE["k"])
    kind = CASE["kind"]
    calls = []
    cfg = W.make_cfg(keepalive=2)
    w = (W.thread_worker if kind == "gthread" else W.async_worker)(cfg, _app(calls), max_requests=lim)
    c = RecSock([REQ] * k)
    if kind == "gthread":
        W.gthread_serve(w, c, max_dispatch=k + 2)
    else:
        W.run_connection(kind, w, c)
    try:
        rs = hr.parse_stream(c.wire(), [False] * k)
    except hr.Bad:
        return False
    n = min(k, lim)
    if len(calls) != n or len(rs) != n or c.closed < 1:
        return False
    for i, r in enumerate(rs):
        if not (r["complete"] and r["body"] == b"ok"):
            return False
        last = i == n - 1
        if i == lim - 1 and r["connection"] != [b"close"]:
            return False
        if i < lim - 1 and i < k - 1 and r["connection"] != [b"keep-alive"]:
            return False
    return w.alive == (k < lim)


def sync_loop(lim: int, k: int) -> bool:
    """
    pre: 1 <= lim <= CASE["lim"] and 0 <= k <= CASE["k"]
    post: __return__
    """
    lim, k = pick(lim, 1, CASE["lim"]), pick(k, 0, CASE["k"])
    calls = []
    cfg = W.make_cfg()
    w = W.sync_worker(cfg, _app(calls), max_requests=lim)
    clients = [RecSock([REQ]) for _ in range(k)]
    pending = list(clients)

    class Listener(RecSock):
        def accept(self_):
            if not pending:
                raise OSError(errno.EAGAIN, "again")
            return pending.pop(0), ("10.0.0.9", 1000)
    lst = Listener()
    w.sockets = [lst]
    w.PIPE = [90, 91]
    w.wait_fds = [lst, 90]
    w.tmp = SimpleNamespace(notify=lambda: None)
    w.timeout = 1.0
    selects = [0]

    def select(r, w_, x, timeout):
        selects[0] += 1
        if selects[0] >= 2:
            w.alive = False                # nothing more will come: let the loop end (only reached when k < lim)
        return ([], [], [])
    saved = S.select, S.os, S.util
    S.select = ns("S.select", select=select)
    S.os = ns("S.os", getppid=lambda: 1, read=lambda fd, n: b"")
    S.util = ns("S.util", close_on_exec=lambda fd: None, close=saved[2].close, reraise=saved[2].reraise)
    try:
        w.run_for_one(w.timeout)
    finally:
        S.select, S.os, S.util = saved
    n = min(k, lim)
    if len(calls) != n or len(pending) != k - n:
        return False                        # accepts nothing after the limit-reaching request
    for c in clients[:n]:
        try:
            rs = hr.parse_stream(c.wire(), [False])
        except hr.Bad:
            return False
        if not _one(rs) or c.closed != 1:
            return False
    if k >= lim and selects[0] != 0:
        return False                        # the loop ended by itself, without waiting in select again
    return not w.alive


def gthread_recycle(nconn: int, lim: int, early: bool) -> bool:
    """
    pre: 1 <= nconn <= CASE["nconn"] and 1 <= lim <= nconn
    post: __return__
    """
    # concurrent load on gthread: several connections have been handed to the pool when the limit is reached; the ones
    # already in flight must be answered in full before the worker leaves (the real ThreadWorker.run incl. its tail)
    import gunicorn.workers.gthread as G
    from harness.c04 import DeferredPool
    nconn, lim = pick(nconn, 1, CASE["nconn"]), pick(lim, 1, CASE["nconn"])
    calls = []
    cfg = W.make_cfg(keepalive=0, threads=1, worker_connections=8)
    w = W.thread_worker(cfg, _app(calls), max_requests=lim)
    w._keep.clear()
    w.nr_conns = 0
    pool = DeferredPool()
    w.tpool = pool
    clients = [RecSock([REQ]) for _ in range(nconn)]
    pending = list(clients)

    class Listener(RecSock):
        def accept(self_):
            if not pending:
                raise OSError(errno.EAGAIN, "again")
            return pending.pop(0), ("10.0.0.9", 1000)
    lst = Listener(name="/run/g.sock")       # unix bind shared with the sibling workers and the master
    w.sockets = [lst]
    import gunicorn.sock as GS
    unlinked = []
    saved_gs = GS.os
    GS.os = ns("GS.os", unlink=lambda p: unlinked.append(p))

    class Poller(W.Poller):
        def select(self_, timeout):
            evs = []
            for s in list(self_.order):
                if s is lst:
                    if pending:
                        evs.append((SimpleNamespace(data=self_.reg[s], fileobj=s), 1))
                elif not s.out:
                    evs.append((SimpleNamespace(data=self_.reg[s], fileobj=s), 1))
            return evs
    w.poller = Poller()
    loops = [0]

    def fwait(fs, timeout=None, return_when=None):
        fs = list(fs)
        # handler threads make progress: one job per call while the loop runs, everything during the final wait
        todo = [f for f in fs if f.state == "pending"]
        if timeout and timeout > 1:
            for f in todo:
                f.run()
        elif todo and (early or loops[0] >= nconn):
            todo[0].run()
        return SimpleNamespace(done=[f for f in fs if f.state in ("done", "cancelled")],
                               not_done=[f for f in fs if f.state == "pending"])

    def notify():
        loops[0] += 1
        if loops[0] > 12:
            w.alive = False
    w.tmp = SimpleNamespace(notify=notify)
    saved = G.futures, G.os
    G.futures = ns("G.futures", wait=fwait, FIRST_COMPLETED="FIRST_COMPLETED")
    G.os = ns("G.os", getppid=lambda: 1)
    try:
        w.run()
    finally:
        G.futures, G.os = saved
        GS.os = saved_gs
    if w.alive or unlinked or lst.closed != 1:
        return False                        # the recycled worker closes its copy of the listener and leaves the socket file alone
    # every connection that had been handed to a handler before the worker left got its complete response
    for f in pool.pending:
        if f.state != "done":
            return False
    answered = 0
    for c in clients:
        raw = c.wire()
        if not raw:
            continue
        try:
            rs = hr.parse_stream(raw, [False])
        except hr.Bad:
            return False
        if not _one(rs):
            return False
        answered += 1
    return answered == pool.jobs and answered >= min(lim, nconn)


def sync_loop_multi(lim: int, k1: int, k2: int) -> bool:
    """
    pre: 1 <= lim <= CASE["lim"] and 0 <= k1 <= CASE["k"] and 0 <= k2 <= CASE["k"]
    post: __return__
    """
    # two listeners (two bind addresses), both readable in the same select round
    lim, k1, k2 = pick(lim, 1, CASE["lim"]), pick(k1, 0, CASE["k"]), pick(k2, 0, CASE["k"])
    calls = []
    cfg = W.make_cfg()
    w = W.sync_worker(cfg, _app(calls), max_requests=lim)

    class Listener(RecSock):
        def __init__(self_, n):
            super().__init__()
            self_.pend = [RecSock([REQ]) for _ in range(n)]
            self_.taken = []

        def accept(self_):
            if not self_.pend:
                raise OSError(errno.EAGAIN, "again")
            c = self_.pend.pop(0)
            self_.taken.append(c)
            return c, ("10.0.0.9", 1000)
    l1, l2 = Listener(k1), Listener(k2)
    w.sockets = [l1, l2]
    w.PIPE = [90, 91]
    w.wait_fds = [l1, l2, 90]
    w.tmp = SimpleNamespace(notify=lambda: None)
    w.timeout = 1.0
    rounds = [0]

    def select(r, w_, x, timeout):
        rounds[0] += 1
        if rounds[0] > k1 + k2 + 2:
            w.alive = False                 # nothing more will come
            return ([], [], [])
        return ([l for l in (l1, l2) if l.pend], [], [])
    saved = S.select, S.os, S.util
    S.select = ns("S.select", select=select)
    S.os = ns("S.os", getppid=lambda: 1, read=lambda fd, n: b"")
    S.util = ns("S.util", close_on_exec=lambda fd: None, close=saved[2].close, reraise=saved[2].reraise)
    try:
        w.run_for_multiple(w.timeout)
    finally:
        S.select, S.os, S.util = saved
    n = min(k1 + k2, lim)
    if len(calls) != n or len(l1.taken) + len(l2.taken) != n:
        return False                        # never more than the limit, whichever listeners were ready
    for c in l1.taken + l2.taken:
        try:
            rs = hr.parse_stream(c.wire(), [False])
        except hr.Bad:
            return False
        if not _one(rs) or c.closed != 1:
            return False
    return not w.alive


def count_twin(lim: int, k: int) -> bool:
    """
    pre: 0 <= lim <= CASE["lim"] and 1 <= k <= CASE["k"]
    post: __return__
    """
    if not (lim == 2 and k == 3):
        return True
    return not count(lim, k)


OBLIGATIONS = [
    Ob("C18.limit", "limit", timeout=300, bound="max_requests 0..5, jitter 0..3, randint result anywhere in its range"),
    Ob("C18.count", "count",
       cases={"quick": [{"kind": k, "keepalive": ka, "lim": 3, "k": 4} for k, ka in (("sync", 0), ("gthread", 2), ("async", 2), ("gthread", 0))],
              "thorough": [{"kind": k, "keepalive": ka, "lim": 5, "k": 7} for k, ka in (("sync", 0), ("gthread", 2), ("async", 2), ("gthread", 0), ("async", 0))]},
       timeout={"quick": 900, "thorough": 3000},
       bound="limit 0 (= unlimited) .. 3 (thorough 5), 1..4 (7) sequential connections, each worker class, keep-alive on/off"),
    Ob("C18.count.twin", "count_twin", cases=[{"kind": "gthread", "keepalive": 2, "lim": 3, "k": 4}], expect="refute", timeout=300),
    Ob("C18.keepalive_conn", "keepalive_conn",
       cases={"quick": [{"kind": k, "lim": 3, "k": 4} for k in ("gthread", "async")],
              "thorough": [{"kind": k, "lim": 4, "k": 6} for k in ("gthread", "async")]},
       timeout={"quick": 900, "thorough": 3000}, bound="limit 1..3 (4), 1..4 (6) pipelined requests on one keep-alive connection"),
    Ob("C18.sync_loop_multi", "sync_loop_multi", cases={"quick": [{"lim": 3, "k": 2}], "thorough": [{"lim": 4, "k": 3}]}, timeout=900,
       bound="run_for_multiple with two listeners offering 0..2 (3) connections each, both ready in the same select round, limit 1..3 (4)"),
    Ob("C18.gthread_recycle", "gthread_recycle", cases={"quick": [{"nconn": 3}], "thorough": [{"nconn": 5}]}, timeout=900,
       bound="real ThreadWorker.run with a deferred executor: 1..3 (thorough 5) connections handed to the pool, limit reached "
             "while others are still queued: all of them are answered before the worker leaves"),
    Ob("C18.sync_loop", "sync_loop", cases={"quick": [{"lim": 3, "k": 4}], "thorough": [{"lim": 4, "k": 6}]}, timeout=900,
       bound="run_for_one with 0..4 (6) waiting connections and limit 1..3 (4)"),
]

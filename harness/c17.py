"""C17 - the pid file names the running master, exclusively and atomically.

Kernels: the real Pidfile.create / validate / unlink / rename on the FS stub (engine/stubs/fs.py).
  1 create    file state {absent, "N\\n", "N", garbage, empty} x liveness of N {alive, EPERM, dead} x own pid: refuses iff the
              file names a live (or EPERM) other process; a stale or unreadable file is taken over
  2 crash     a crash before each mutating system call of create(): the configured path holds either its previous
              complete content or the new complete content, never anything else
  3 unlink    removes the file only if it still contains the instance's own pid; never raises
  4 rename    old path released only if owned, new path created under the same rules
  6 race      two instances run create() concurrently, preempted before every mutating system call in a solver-chosen order
              (real threads, one running at a time): the path only ever shows the initial or a complete content, no
              temporary file or descriptor is left, each instance that did not refuse believes it wrote the file
  5 history   <=3 operations by two instances (pids a, b) on one path incl. owner death: no instance ever removes the
              other's file, no instance takes the path from a live other instance, content is always complete
"""
from typing import List

from engine.harness_api import Ob, setup, pick
setup(shim=False)

import gunicorn.pidfile as P  # noqa: E402
from engine.stubs.fs import FS, Crash, install  # noqa: E402
from engine.stubs.sched import Interleaver  # noqa: E402

PROPERTY = "C17"
CASE = {}
KERNELS = ["gunicorn.pidfile:Pidfile.create", "gunicorn.pidfile:Pidfile.validate", "gunicorn.pidfile:Pidfile.unlink",
           "gunicorn.pidfile:Pidfile.rename"]
STUBS = ["engine/stubs/fs.py: path->inode->bytes store with descriptors bound to inodes, kill(pid,0) liveness table, "
         "crash-before-the-k-th-mutating-call, atomic rename, all-or-nothing write, O_CREAT/O_EXCL/O_TRUNC open",
         "engine/stubs/sched.py: deterministic interleaver (threads resumed one at a time at mutating-syscall boundaries)"]
ASSUMPTIONS = ["pids are small positive ints; pid reuse does not happen inside one history",
               "the pid handed to create() is the caller's own pid (arbiter.py always passes os.getpid())"]
OUTSIDE = ["partial write(2)", "NFS rename semantics", "pid reuse"]

PATH = "/run/g.pid"


def content(kind, n):
    if kind == 0:
        return None
    if kind == 1:
        return ("%d\n" % n).encode()
    if kind == 2:
        return ("%d" % n).encode()
    if kind == 3:
        return b"garbage\n"
    return b""


def names(kind, n):
    """pid the file names, or None"""
    return n if kind in (1, 2) else None


def mk_fs(kind, n, live, own, crash_at=None):
    files = {}
    c = content(kind, n)
    if c is not None:
        files[PATH] = c
    alive = {own}
    eperm = set()
    if live == 1:
        alive.add(n)
    elif live == 2:
        eperm.add(n)
    return FS(files, alive=alive, eperm=eperm, pid=own, crash_at=crash_at)


def create(kind: int, n: int, live: int, own: int) -> bool:
    """
    pre: 0 <= kind <= 4 and 1 <= n <= 4 and 0 <= live <= 2 and 1 <= own <= 4
    post: __return__
    """
    kind, n, live, own = pick(kind, 0, 4), pick(n, 1, 4), pick(live, 0, 2), pick(own, 1, 4)
    fs = mk_fs(kind, n, live, own)
    before = dict(fs.files)
    pf = P.Pidfile(PATH)
    undo = install(P, fs)
    refused = False
    try:
        try:
            pf.create(own)
        except RuntimeError:
            refused = True
    finally:
        undo()
    named = names(kind, n)
    other_live = named is not None and named != own and live in (1, 2)
    if other_live:
        return refused and fs.files == before            # refuses, touches nothing
    if refused:
        return False
    if named == own:
        return fs.files == before                          # already ours
    # absent / stale / unreadable: taken over, complete content, no temp file left behind
    return fs.files == {PATH: ("%d\n" % own).encode()} and not fs.fds


def crash(kind: int, n: int, own: int, c: int) -> bool:
    """
    pre: 0 <= kind <= 4 and 1 <= n <= 4 and 1 <= own <= 4 and 0 <= c <= 6
    post: __return__
    """
    kind, n, own, c = pick(kind, 0, 4), pick(n, 1, 4), pick(own, 1, 4), pick(c, 0, 6)
    fs = mk_fs(kind, n, 0, own, crash_at=c)               # the recorded pid is dead: create() proceeds
    old = fs.files.get(PATH)
    pf = P.Pidfile(PATH)
    undo = install(P, fs)
    try:
        try:
            pf.create(own)
        except Crash:
            pass
    finally:
        undo()
    now = fs.files.get(PATH)
    return now == old or now == ("%d\n" % own).encode()


def crash_twin(kind: int, n: int, own: int, c: int) -> bool:
    """
    pre: 0 <= kind <= 4 and 1 <= n <= 4 and 1 <= own <= 4 and 0 <= c <= 6
    post: __return__
    """
    kind, n, own, c = pick(kind, 0, 4), pick(n, 1, 4), pick(own, 1, 4), pick(c, 0, 6)
    fs = mk_fs(kind, n, 0, own, crash_at=c)
    pf = P.Pidfile(PATH)
    undo = install(P, fs)
    crashed = False
    try:
        try:
            pf.create(own)
        except Crash:
            crashed = True
    finally:
        undo()
    # witness: a crash after the temp file was written but before the rename
    return not (crashed and fs.log == ["mkstemp", "write"])


def unlink(kind: int, n: int, own: int, has_pid: bool) -> bool:
    """
    pre: 0 <= kind <= 4 and 1 <= n <= 4 and 1 <= own <= 4
    post: __return__
    """
    kind, n, own = pick(kind, 0, 4), pick(n, 1, 4), pick(own, 1, 4)
    fs = mk_fs(kind, n, 1, own)
    before = dict(fs.files)
    pf = P.Pidfile(PATH)
    pf.pid = own if has_pid else None
    undo = install(P, fs)
    try:
        pf.unlink()                                        # must not raise
    finally:
        undo()
    mine = has_pid and names(kind, n) == own
    if mine:
        return PATH not in fs.files
    return fs.files == before


def rename(kind: int, n: int, own: int, kind2: int, n2: int, live2: int) -> bool:
    """
    pre: 0 <= kind <= 4 and 1 <= n <= 4 and 1 <= own <= 4 and 0 <= kind2 <= 4 and 1 <= n2 <= 4 and 0 <= live2 <= 2
    post: __return__
    """
    kind, n, own, kind2, n2, live2 = (pick(kind, 0, 4), pick(n, 1, 4), pick(own, 1, 4), pick(kind2, 0, 4),
                                      pick(n2, 1, 4), pick(live2, 0, 2))
    NEW = "/run/g2.pid"
    fs = mk_fs(kind, n, 1, own)
    c2 = content(kind2, n2)
    if c2 is not None:
        fs.put(NEW, c2)
    if live2 == 1:
        fs.alive.add(n2)
    elif live2 == 2 and n2 not in fs.alive:
        fs.eperm.add(n2)
    old_before = fs.files.get(PATH)
    new_before = fs.files.get(NEW)
    pf = P.Pidfile(PATH)
    pf.pid = own
    undo = install(P, fs)
    refused = False
    try:
        try:
            pf.rename(NEW)
        except RuntimeError:
            refused = True
    finally:
        undo()
    # old path: removed only if it was ours
    if names(kind, n) == own:
        if PATH in fs.files:
            return False
    elif fs.files.get(PATH) != old_before:
        return False
    named2 = names(kind2, n2)
    blocked = named2 is not None and named2 != own and (n2 in fs.alive or n2 in fs.eperm)
    if blocked:
        return refused and fs.files.get(NEW) == new_before
    if refused:
        return False
    if named2 == own:
        return fs.files.get(NEW) == new_before             # already names us: left as it is
    return fs.files.get(NEW) == ("%d\n" % own).encode()


# ---- 5. histories of two instances --------------------------------------------------------------------------------------
def history(ops: List[int]) -> bool:
    """
    pre: len(ops) == CASE["n"]
    pre: all(0 <= o <= 5 for o in ops)
    post: __return__
    """
    a, b = 2, 3
    fs = FS({}, alive={a, b}, pid=a)
    inst = {a: P.Pidfile(PATH), b: P.Pidfile(PATH)}
    undo = install(P, fs)
    try:
        for o in ops:
            o = pick(o, 0, 5)
            who = a if o in (0, 2, 4) else b
            before = fs.files.get(PATH)
            named = None
            if before is not None:
                named = int(before) if before.strip().isdigit() else None
            if o in (4, 5):
                fs.alive.discard(who)                       # the process dies (kill -9): its file stays behind
                continue
            if who not in fs.alive:
                continue                                     # dead instances do nothing
            fs.pid = who
            if o in (0, 1):
                refused = False
                try:
                    inst[who].create(who)
                except RuntimeError:
                    refused = True
                other_live = named is not None and named != who and named in fs.alive
                if other_live != refused:
                    return False
                if not refused and fs.files.get(PATH) != ("%d\n" % who).encode():
                    return False
            else:
                inst[who].unlink()
                if named is not None and named != who and fs.files.get(PATH) != before:
                    return False                             # never deletes another instance's file
                if named == who and inst[who].pid == who and PATH in fs.files:
                    return False
            now = fs.files.get(PATH)
            if now not in (None, b"2\n", b"3\n"):
                return False
    finally:
        undo()
    return True


def history_twin(ops: List[int]) -> bool:
    """
    pre: len(ops) == CASE["n"]
    pre: all(0 <= o <= 5 for o in ops)
    post: __return__
    """
    # witness: A creates, A dies, B takes the stale file over
    return list(ops)[:3] != [0, 4, 1]


# ---- 6. two concurrent create() calls -----------------------------------------------------------------------------------
def run_race(order, stale):
    """concrete: returns the list of problems seen"""
    a, b = 2, 3
    fs = FS({PATH: b"9\n"} if stale else {}, alive={a, b}, pid=a)
    initial = fs.files.get(PATH)
    ok = (initial, b"2\n", b"3\n")
    il = Interleaver(["A", "B"])
    pid = {"A": a, "B": b}
    bad = []
    refused = {}

    def task(n):
        def f():
            try:
                P.Pidfile(PATH).create(pid[n])
                refused[n] = False
            except RuntimeError:
                refused[n] = True
        return f

    def resume(n):
        fs.pid = pid[n]

    def observe(n):
        if fs.files.get(PATH) not in ok:
            bad.append(("content", list(il.trace), fs.files.get(PATH)))

    fs.before_mutating = il.yield_point
    undo = install(P, fs)
    try:
        res, exc = il.run({"A": task("A"), "B": task("B")}, ["A" if o else "B" for o in order], resume, observe)
    finally:
        undo()
    if exc:
        bad.append(("exception", {k: repr(v) for k, v in exc.items()}))
    if set(fs.paths) != {PATH} or fs.fds:
        bad.append(("left behind", sorted(fs.paths), dict(fs.fds)))
    final = fs.files.get(PATH)
    winners = [("%d\n" % pid[n]).encode() for n in ("A", "B") if refused.get(n) is False]
    if final not in winners:
        bad.append(("final content names nobody who succeeded", final, refused))
    return bad


def race(order: List[int], stale: bool) -> bool:
    """
    pre: len(order) == CASE["n"]
    pre: all(0 <= o <= 1 for o in order)
    post: __return__
    """
    from engine.harness_api import untraced as NoTracing
    order = [pick(o, 0, 1) for o in order]
    stale = bool(pick(int(stale), 0, 1))
    with NoTracing():
        return not run_race(order, stale)


def race_twin(order: List[int], stale: bool) -> bool:
    """
    pre: len(order) == CASE["n"]
    pre: all(0 <= o <= 1 for o in order)
    post: __return__
    """
    from engine.harness_api import untraced as NoTracing
    order = [pick(o, 0, 1) for o in order]
    with NoTracing():
        a, b = 2, 3
        fs = FS({}, alive={a, b}, pid=a)
        il = Interleaver(["A", "B"])
        fs.before_mutating = il.yield_point
        undo = install(P, fs)
        try:
            il.run({"A": lambda: P.Pidfile(PATH).create(a), "B": lambda: P.Pidfile(PATH).create(b)},
                   ["A" if o else "B" for o in order], lambda n: setattr(fs, "pid", {"A": a, "B": b}[n]))
        finally:
            undo()
        # witness: a genuinely interleaved run (A, B, A, B at the first four resumptions) in which both created the file
        return not (il.trace[:4] == ["A", "B", "A", "B"] and not il.exc)


OBLIGATIONS = [
    Ob("C17.create", "create", timeout=600, bound="file state {absent,'N\\n','N',garbage,empty} x N,own in 1..4 x liveness{dead,alive,EPERM}"),
    Ob("C17.crash", "crash", timeout=600, bound="crash before each of the first 7 mutating system calls of create(), all file states"),
    Ob("C17.crash.twin", "crash_twin", expect="refute", timeout=120),
    Ob("C17.unlink", "unlink", timeout=600, bound="all file states x own pid x instance with/without a recorded pid"),
    Ob("C17.rename", "rename", timeout=1200, bound="all file states at the old and the new path x liveness of the new path's pid"),
    Ob("C17.history", "history", cases={"quick": [{"n": 3}], "thorough": [{"n": 4}, {"n": 5}]}, timeout={"quick": 600, "thorough": 2400},
       bound="histories of 3 (thorough 4, 5) operations from {A.create, B.create, A.unlink, B.unlink, A dies, B dies} on one path"),
    Ob("C17.race", "race", cases={"quick": [{"n": 8}], "thorough": [{"n": 12}]}, timeout={"quick": 600, "thorough": 2400},
       bound="2 instances x every order of the first 8 (thorough 12: all) resumptions at mutating-syscall boundaries x path initially absent / stale"),
    Ob("C17.race.twin", "race_twin", cases=[{"n": 4}], expect="refute", timeout=120),
    Ob("C17.history.twin", "history_twin", cases=[{"n": 3}], expect="refute", timeout=120),
]

"""Lexical gates decided with z3's regex theory over strings of ANY length (engine/regex_smt.py).

The CrossHair obligations of C01/C09/C15 push symbolic strings of a few characters through the real functions.  The
character-level part of those properties - which strings the token / field-value / version / method checks let through -
does not need a length bound: the gates are regular-expression tests, and "what the real code accepts" (pattern AND the
method it is applied with, both read from /repo's current source) can be compared with the RFC grammar as a regular
language inclusion that z3 decides outright.

  generator  resp_lex_smt / req_lex_smt   build the queries, return unsat-for-all or a concrete string
  predicate  resp_lex / req_lex           concrete replay through the real public function (start_response / Request
                                          parsing): real acceptance must equal the independent Python predicate below

Context constraints (what the gate's argument can be at that call site) are part of each query and listed in `bound`.
"""
from types import SimpleNamespace

TCHARS = "!#$%&'*+-.^_`|~0123456789abcdefghijklmnopqrstuvwxyzABCDEFGHIJKLMNOPQRSTUVWXYZ"


# ---- the RFC side, written independently of gunicorn -----------------------------------------------------------------------
def is_token(s):
    return len(s) > 0 and all(c in TCHARS for c in s)


def is_field_value_chars(s):
    """RFC 9110 5.5 field-content characters as gunicorn may emit them: HTAB / SP / VCHAR / obs-text"""
    return all(c == "\t" or 0x20 <= ord(c) <= 0x7e or 0x80 <= ord(c) <= 0xff for c in s)


def is_safe_request_value(s):
    return all(ord(c) not in (0, 10, 13) for c in s)


def is_http_version(s):
    return len(s) == 8 and s[:5] == "HTTP/" and s[5] in "0123456789" and s[6] == "." and s[7] in "0123456789"


def is_conventional_method(s):
    return is_token(s) and not any(c in "abcdefghijklmnopqrstuvwxyz#" for c in s)


def _ranges_of(chars):
    return [(ord(c), ord(c)) for c in chars]


def _z():
    import z3
    from engine import regex_smt as R
    return z3, R


def z_token():
    z3, R = _z()
    return z3.Plus(R.set_to_z3(_ranges_of(TCHARS)))


def z_field_value():
    z3, R = _z()
    return z3.Star(R.set_to_z3([(9, 9), (0x20, 0x7e), (0x80, 0xff)]))


def z_latin1():
    z3, R = _z()
    return z3.Star(R.set_to_z3([(0, 255)]))


def z_without(codes, hi=255):
    z3, R = _z()
    keep = [(c, c) for c in range(hi + 1) if c not in codes]
    return z3.Star(R.set_to_z3(keep))


def z_version():
    z3, R = _z()
    d = R.set_to_z3([(48, 57)])
    return z3.Concat(z3.Re("HTTP/"), d, z3.Re("."), d)


def z_conventional_method():
    z3, R = _z()
    return z3.Plus(R.set_to_z3(_ranges_of([c for c in TCHARS if not ("a" <= c <= "z") and c != "#"])))


# ---- generic driver ---------------------------------------------------------------------------------------------------------------
def _run(groups, predicate_arg):
    """groups: [(label, kind, gates, ctx formulas builder, spec regex, mode)]; mode in {'eq','sub'}:
         sub: accepted within ctx  =>  spec          eq: additionally  spec within ctx  =>  accepted"""
    z3, R = _z()
    st = R.Stats()
    s = z3.String("s")
    msgs = []
    # translator self-test on the patterns actually in use (real engine vs z3 term)
    samples = ["", "a", "A", "a\n", "\n", "a\r", "\r\n", "a\x00", "a b", " a", "a ", "\t", "a:b", "G#T", "get", "GET", "HTTP/1.1",
               "HTTP/1.1\n", "HTTP/1.1 ", "HTTP/11.1", "HTTP/١.1", "\x7f", "\x80\xff", "Ā", "x\x0b", "~!", "(", "200 OK", "200 OK\n"]
    pairs = []
    for _, _, gates, _, _, _ in groups:
        for g in gates:
            if (g.pattern, g.method) not in pairs:
                pairs.append((g.pattern, g.method))
    n, bad = R.selftest(pairs, samples)
    if bad:
        return {"status": "error", "error": "regex translation disagrees with the re engine: %r" % (bad[:3],)}
    for label, kind, gates, ctx, spec, mode in groups:
        if not gates:
            return {"status": "unknown", "error": "no regex gate recognised for %s (code shape changed): inconclusive" % label,
                    "solver_calls": st.queries, "solver_s": st.solver_s}
        acc = R.accepted(s, gates)
        # vacuity guard: within the context some string passes the gates and some string is refused
        for qlabel, f in (("%s: reachable (accepted)" % label, acc), ("%s: reachable (refused)" % label, z3.Not(acc))):
            r, _ = R.solve(list(ctx(s)) + [f], s, st, qlabel)
            if r != "sat":
                return {"status": "error", "error": "vacuous query context (%s is %s)" % (qlabel, r)}
        queries = [("%s: accepted and not RFC" % label, [acc, z3.Not(z3.InRe(s, spec))])]
        if mode == "eq":
            queries.append(("%s: RFC and refused" % label, [z3.Not(acc), z3.InRe(s, spec)]))
        for qlabel, fs in queries:
            r, val = R.solve(list(ctx(s)) + fs, s, st, qlabel)
            if r == "unknown":
                return {"status": "unknown", "error": "z3 unknown on " + qlabel, "solver_calls": st.queries, "solver_s": st.solver_s}
            if r == "sat":
                msgs.append({"state": "POST_FAIL", "message": "%s: %r  (gates: %s)" % (qlabel, val, "; ".join(g.describe() for g in gates)),
                             "line": 0, "trace": ""})
                return {"status": "refuted", "messages": msgs, "ce_args": {"kind": repr(kind), predicate_arg: repr(val)},
                        "paths": st.queries, "confirmed_paths": 0, "solver_calls": st.queries, "solver_s": round(st.solver_s, 3),
                        "queries": st.log, "selftest_cases": n}
    return {"status": "confirmed", "messages": [], "ce_args": None, "paths": st.queries, "confirmed_paths": st.queries,
            "solver_calls": st.queries, "solver_s": round(st.solver_s, 3), "queries": st.log, "selftest_cases": n,
            "gates": [g.describe() for _, _, gates, _, _, _ in groups for g in gates]}


# ---- response side (C09) ------------------------------------------------------------------------------------------------------------
def resp_lex_smt(case):
    z3, R = _z()
    from gunicorn.http import wsgi
    try:
        g = R.gates_in(wsgi.Response.start_response) + R.gates_in(wsgi.Response.process_headers)
    except R.Unsupported as e:
        return {"status": "unknown", "error": "gate extraction: %s" % e}
    by = lambda a: [x for x in g if x.arg == a and not x.guards]      # noqa: E731
    if any(x.guards or x.arg not in ("status", "name", "value") for x in g):
        return {"status": "unknown", "error": "unrecognised gate: %s" % [x.describe() for x in g]}

    def status_ctx(s):
        return [z3.PrefixOf(z3.StringVal("200 "), s)]

    def free(s):
        return []
    # "sub": what is accepted lies inside the RFC language.  (The converse - everything the RFC allows is accepted - is not
    # something C09 / C01 state, so a stricter gate is not reported.)
    groups = [("status line", 0, by("status"), status_ctx, z_field_value(), "sub"),
              ("header name", 1, by("name"), free, z_token(), "sub"),
              ("header value", 2, by("value"), free, z_field_value(), "sub")]
    return _run(groups, "s")


class _Req:
    version = (1, 1)
    method = "GET"

    def should_close(self):
        return False


def resp_lex(kind: int, s: str) -> bool:
    """
    pre: 0 <= kind <= 2
    post: __return__
    """
    from gunicorn.http import wsgi
    from engine.stubs.recsock import RecSock
    sock = RecSock()
    resp = wsgi.Response(_Req(), sock, SimpleNamespace(is_ssl=False, sendfile=None))
    if kind == 0:
        status, headers, spec = s, [], s.startswith("200 ") and is_field_value_chars(s)
    elif kind == 1:
        status, headers, spec = "200 OK", [(s, "v")], is_token(s)
    else:
        status, headers, spec = "200 OK", [("X-A", s)], is_field_value_chars(s)
    try:
        resp.start_response(status, headers)
        resp.send_headers()
        accepted = True
    except Exception:
        accepted = False
    if accepted and not spec:
        return False                      # something that is not RFC text went out
    if not accepted and sock.out:
        return False                      # refused after bytes were sent
    return True


# ---- request side (C01 / C15) ---------------------------------------------------------------------------------------------------------
def req_lex_smt(case):
    z3, R = _z()
    from gunicorn.http import message
    try:
        gh = R.gates_in(message.Message.parse_headers)
        gl = R.gates_in(message.Request.parse_request_line)
    except R.Unsupported as e:
        return {"status": "unknown", "error": "gate extraction: %s" % e}
    permit = bool(case.get("permit"))
    GUARD = "not self.cfg.permit_unconventional_http_method"
    for x in gh + gl:
        if x.guards and x.guards != [GUARD]:
            return {"status": "unknown", "error": "gate under an unrecognised condition: %s" % x.describe()}
    known = {"name", "value", "self.method", "bits[0]", "bits[2]"}
    if any(x.arg not in known for x in gh + gl):
        return {"status": "unknown", "error": "gate on an unrecognised value: %s" % [x.describe() for x in gh + gl]}
    name = [x for x in gh if x.arg == "name"]
    value = [x for x in gh if x.arg == "value"]
    method = [x for x in gl if x.arg in ("self.method", "bits[0]") and (not x.guards or not permit)]
    version = [x for x in gl if x.arg == "bits[2]"]
    lat = z_latin1()

    def name_ctx(s):       # the part of a header line before the first ':' (line already cut at CRLF), not empty
        return [z3.InRe(s, lat), z3.Not(z3.Contains(s, z3.StringVal(":"))), z3.Not(z3.Contains(s, z3.StringVal("\r\n"))),
                z3.Length(s) > 0]

    def value_ctx(s):      # after strip(" \t"); lines were cut at CRLF
        ws = R.set_to_z3([(9, 9), (32, 32)])
        anyl = R.set_to_z3([(0, 255)])
        trimmed = z3.Union(R.eps(), R.set_to_z3([(0, 8), (10, 31), (33, 255)]),
                           z3.Concat(R.set_to_z3([(0, 8), (10, 31), (33, 255)]), z3.Star(anyl), R.set_to_z3([(0, 8), (10, 31), (33, 255)])))
        del ws
        return [z3.InRe(s, trimmed), z3.Not(z3.Contains(s, z3.StringVal("\r\n")))]

    def method_ctx(s):     # first of the three SP-separated parts; 3..20 characters unless unconventional methods are permitted
        c = [z3.InRe(s, lat), z3.Not(z3.Contains(s, z3.StringVal(" "))), z3.Not(z3.Contains(s, z3.StringVal("\r\n")))]
        if not permit:
            c += [z3.Length(s) >= 3, z3.Length(s) <= 20]
        else:
            c += [z3.Length(s) >= 1]
        return c

    def version_ctx(s):    # everything after the second SP
        return [z3.InRe(s, lat), z3.Not(z3.Contains(s, z3.StringVal("\r\n")))]
    groups = [("request header name", 0, name, name_ctx, z_token(), "sub"),
              ("request header value", 1, value, value_ctx, z_without((0, 10, 13)), "sub"),
              ("request method", 3 if permit else 2, method, method_ctx, z_token(), "sub"),
              ("HTTP version", 4, version, version_ctx, z_version(), "sub")]
    return _run(groups, "s")


def req_lex(kind: int, s: str) -> bool:
    """
    pre: 0 <= kind <= 4
    pre: all(ord(c) < 256 for c in s)
    post: __return__
    """
    from gunicorn.config import Config
    from gunicorn.http.message import Request
    from gunicorn.http.unreader import IterUnreader
    cfg = Config()
    if kind == 3:
        cfg.set("permit_unconventional_http_method", True)
    if kind == 4:
        cfg.set("permit_unconventional_http_version", True)      # only the lexical form is judged here
    b = s.encode("latin-1")
    if kind == 0:
        raw, spec = b"GET / HTTP/1.1\r\n" + b + b": v\r\n\r\n", is_token(s)
    elif kind == 1:
        raw, spec = b"GET / HTTP/1.1\r\nX-A: " + b + b"\r\n\r\n", is_safe_request_value(s)
    elif kind == 2:
        raw, spec = b + b" / HTTP/1.1\r\n\r\n", is_token(s)
    elif kind == 3:
        raw, spec = b + b" / HTTP/1.1\r\n\r\n", is_token(s)
    else:
        raw, spec = b"GET / " + b + b"\r\n\r\n", is_http_version(s)
    try:
        req = Request(cfg, IterUnreader(iter([raw])), ("127.0.0.1", 1234))
        accepted = True
    except Exception:
        accepted = False
    if accepted:
        # the value the application would see is the one that was sent
        if kind == 0 and (s.upper(), "v") not in req.headers:
            return False
        if kind == 1 and ("X-A", s) not in req.headers:
            return False
        if kind in (2, 3) and req.method != s:
            return False
        if kind == 4 and not (is_http_version(s) and req.version == (int(s[5]), int(s[7]))):
            return False
    return spec or not accepted

"""C13 - the threaded worker accounts for every connection and never stops serving.

Inductive steps of the real ThreadWorker methods from an arbitrary state satisfying the representation invariant
  nr_conns = #open connections; keep-alive conns = _keep (ordered by deadline) and are registered; in-flight conns
  are neither registered nor in _keep; every open conn is in exactly one of {registered, in flight}; closed conns
  appear nowhere; no socket closed twice
with <=3 connections, each in a solver-chosen phase {new+registered, in flight, keep-alive}.
Steps: accept, on_client_socket_readable (dispatch), finish_request (result keepalive/close, exception, cancelled,
worker alive or stopping), murder_keepalived (symbolic deadlines and clock), and one whole iteration of run().
Interleaving: a handler thread completing another in-flight request (finish_request) is injected at every release of
the worker's lock inside the main-thread step (the lock is a stub that consults the tape on __exit__).
"""
import errno
from collections import deque
from types import SimpleNamespace
from typing import List

from engine.harness_api import Ob, setup, kf_ok, pick, ns
setup(shim=False)

import gunicorn.workers.gthread as G  # noqa: E402
from engine.stubs import workers as W  # noqa: E402
from engine.stubs.recsock import RecSock  # noqa: E402

W.install_clock()

PROPERTY = "C13"
CASE = {}
KERNELS = ["gunicorn.workers.gthread:ThreadWorker.handle", "gunicorn.workers.gthread:ThreadWorker.handle_request",
           "gunicorn.workers.gthread:ThreadWorker.accept", "gunicorn.workers.gthread:ThreadWorker.enqueue_req",
           "gunicorn.workers.gthread:ThreadWorker._wrap_future", "gunicorn.workers.gthread:ThreadWorker.on_client_socket_readable",
           "gunicorn.workers.gthread:ThreadWorker.finish_request", "gunicorn.workers.gthread:ThreadWorker.murder_keepalived",
           "gunicorn.workers.gthread:ThreadWorker.run", "gunicorn.workers.gthread:TConn.init",
           "gunicorn.workers.gthread:TConn.set_timeout", "gunicorn.workers.gthread:TConn.close"]
STUBS = ["selector -> dict-based Poller (KeyError on double register / unknown unregister, like selectors)",
         "executor -> deferred pool (submit returns a pending future; completion is an explicit step)",
         "RLock -> stub that may run a pending handler completion at each release", "sockets -> recording objects",
         "time.time -> harness clock"]
ASSUMPTIONS = ["thread switches happen at lock releases and at calls into stubs only (CPython switches threads between "
               "bytecodes; races inside an unlocked `nr_conns -= 1` are outside this model)",
               "states are reachable-shaped: they satisfy the representation invariant stated above"]
OUTSIDE = [">3 connections", "real selectors / real threads"]

PH_NEW, PH_FLIGHT, PH_KEEP = 0, 1, 2


class Sock:
    def __init__(self, n):
        self.n = n
        self.closed = 0
        self.blocking = None

    def setblocking(self, f):
        self.blocking = f

    def close(self):
        self.closed += 1

    def shutdown(self, how):
        # case "peer_gone": the client has already reset the connection - shutdown(2) fails, close(2) still has to happen
        self.shut = getattr(self, "shut", 0) + 1
        if CASE.get("peer_gone"):
            import errno as _e
            raise OSError(_e.ENOTCONN, "Transport endpoint is not connected")

    def recv(self, n):
        return b""


class PFut:
    def __init__(self, conn=None):
        self.conn = conn
        self.cbs = []
        self._r = self._e = None
        self._c = False
        self.state = "pending"

    def cancelled(self):
        return self._c

    def result(self):
        if self._e:
            raise self._e
        return self._r

    def add_done_callback(self, cb):
        self.cbs.append(cb)

    def complete(self, outcome, keepalive):
        if outcome == 0:
            self._r = (keepalive, self.conn)
        elif outcome == 1:
            self._e = ValueError("handler blew up")
        else:
            self._c = True
        self.state = "done"
        for cb in self.cbs:
            cb(self)


class Pool:
    def __init__(self):
        self.submitted = []

    def submit(self, fn, conn):
        f = PFut()
        self.submitted.append(f)
        return f

    def shutdown(self, wait=True):
        pass


class Lock:
    """RLock stand-in: on release, the tape may let a handler thread finish another in-flight request"""

    def __init__(self):
        self.depth = 0
        self.on_release = None

    def __enter__(self):
        self.depth += 1
        return self

    def __exit__(self, *a):
        self.depth -= 1
        if self.depth == 0 and self.on_release:
            self.on_release()
        return False


def mk(phases, deadlines, wc=4, threads=2, keepalive=2):
    # built by the real ThreadWorker.__init__ / Worker.__init__ (what they set up - the keep-alive queue, the limits - is code
    # under test); only the heartbeat file is replaced.  Concrete, so outside the tracer.
    import gunicorn.workers.base as WB_
    cfg = SimpleNamespace(keepalive=keepalive, is_ssl=False, worker_connections=wc, threads=threads, graceful_timeout=3,
                          max_requests=0, max_requests_jitter=0)
    log = SimpleNamespace(**{k: (lambda *a, **kw: None) for k in ("debug", "info", "warning", "error", "exception")})
    w = object.__new__(G.ThreadWorker)
    with W._untraced():
        saved_tmp = WB_.WorkerTmp
        WB_.WorkerTmp = lambda cfg_: SimpleNamespace(notify=lambda: None, close=lambda: None)
        try:
            G.ThreadWorker.__init__(w, 1, 1, [], None, 15.0, cfg, log)
        finally:
            WB_.WorkerTmp = saved_tmp
    w.tpool = Pool()
    w.poller = W.Poller()
    w._lock = Lock()
    w.nr_conns = 0
    w.ppid = 1
    conns = []
    for i, ph in enumerate(phases):
        c = object.__new__(G.TConn)
        c.cfg = w.cfg
        c.sock = Sock(i)
        c.client = ("c", i)
        c.server = ("s", 1)
        c.timeout = None
        c.parser = None
        c.initialized = False
        c.proxy_protocol_info = {}
        w.nr_conns += 1
        if ph == PH_NEW:
            w.poller.register(c.sock, 1, G.partial(w.on_client_socket_readable, c))
        elif ph == PH_FLIGHT:
            c.initialized = True
            c.parser = object()
            f = PFut(c)
            f.add_done_callback(w.finish_request)
            w.futures.append(f)
            w.tpool.submitted.append(f)
        else:
            c.initialized = True
            c.parser = object()
            c.timeout = deadlines[i]
            w.poller.register(c.sock, 1, G.partial(w.on_client_socket_readable, c))
        conns.append(c)
    # _keep is ordered by deadline (finish_request appends with a non-decreasing clock)
    ks = sorted([c for i, c in enumerate(conns) if phases[i] == PH_KEEP], key=lambda c: c.timeout)
    for c in ks:
        w._keep.append(c)
    return w, conns


def inflight(w):
    return [f.conn for f in w.tpool.submitted if f.state == "pending" and f.conn is not None]


def inv(w, conns):
    nopen = 0
    fl = inflight(w)
    for c in conns:
        if c.sock.closed > 1:
            return False
        reg = c.sock in w.poller.reg
        inf = c in fl
        kept = c in w._keep
        if c.sock.closed:
            if reg or inf or kept:
                return False
        else:
            nopen += 1
            if (1 if reg else 0) + (1 if inf else 0) != 1:
                return False
            if kept and not reg:
                return False
            if inf and kept:
                return False
    if w.nr_conns != nopen:
        return False
    ks = [c.timeout for c in w._keep]
    for i in range(len(ks) - 1):
        if ks[i] > ks[i + 1]:
            return False
    return True


def _pre(phases, deadlines):
    return len(phases) == CASE["k"] and len(deadlines) == CASE["k"]


def arm_interleaving(w, conns, tape):
    """at each lock release the next tape entry may complete the first pending in-flight request:
    0 nothing, 1 keepalive result, 2 close result, 3 exception"""
    steps = list(tape)

    def on_release():
        if not steps:
            return
        e = steps.pop(0)
        if e == 0:
            return
        for f in w.tpool.submitted:
            if f.state == "pending" and f.conn is not None:
                f.complete(1 if e == 3 else 0, e == 1)
                return
    w._lock.on_release = on_release


# ---- steps -----------------------------------------------------------------------------------------------------------
def step_finish(phases: List[int], deadlines: List[int], which: int, keepalive: bool, outcome: int, alive: bool) -> bool:
    """
    pre: _pre(phases, deadlines)
    pre: all(0 <= p <= 2 for p in phases) and all(90 <= d <= 110 for d in deadlines)
    pre: 0 <= which < len(phases) and phases[which] == 1 and 0 <= outcome <= 2
    post: __return__
    """
    W.CLOCK[0] = 111
    w, conns = mk(phases, deadlines)
    w.alive = alive
    if not inv(w, conns):
        return True
    fs = [f for f in w.tpool.submitted if f.conn is conns[which]][0]
    fs.complete(outcome, keepalive)
    if not inv(w, conns):
        return False
    c = conns[which]
    if outcome == 0 and keepalive and alive:
        return c.sock.closed == 0 and c in w._keep and c.timeout == 113
    return c.sock.closed == 1               # closed after its last response / on error / on cancel


def step_finish_race(phases: List[int], deadlines: List[int], which: int, fire: bool) -> bool:
    """
    pre: _pre(phases, deadlines)
    pre: all(0 <= p <= 2 for p in phases) and all(90 <= d <= 110 for d in deadlines)
    pre: 0 <= which < len(phases) and phases[which] == 1
    post: __return__
    """
    # the handler thread re-arms a keep-alive connection while the client's next request is already waiting: the poller
    # (main) thread may run on_client_socket_readable as soon as the socket is registered
    W.CLOCK[0] = 111
    w, conns = mk(phases, deadlines)
    if not inv(w, conns):
        return True
    c = conns[which]
    fired = []

    def on_register(sock):
        if fire and sock is c.sock and not fired:
            fired.append(1)
            w.poller.reg[sock](sock)
    w.poller.on_register = on_register
    fs = [f for f in w.tpool.submitted if f.conn is c][0]
    fs.complete(0, True)
    w.poller.on_register = None
    if not inv(w, conns):
        return False
    if c.sock.closed:
        return False
    if fired:
        # the request that had arrived must have been handed to a handler (not left in _keep unregistered)
        return c in inflight(w)
    return c in w._keep and c.sock in w.poller.reg


def step_murder(phases: List[int], deadlines: List[int], now: int, tape: List[int]) -> bool:
    """
    pre: _pre(phases, deadlines)
    pre: all(0 <= p <= 2 for p in phases) and all(90 <= d <= 110 for d in deadlines) and 90 <= now <= 110
    pre: len(tape) <= CASE["tape"] and all(0 <= e <= 3 for e in tape)
    post: __return__
    """
    w, conns = mk(phases, deadlines)
    if not inv(w, conns):
        return True
    for i in range(len(phases)):
        if phases[i] == PH_KEEP and deadlines[i] > now + 2:
            return True                   # unreachable: a deadline is set to (an earlier clock value) + keepalive
    W.CLOCK[0] = now
    arm_interleaving(w, conns, tape)
    w.murder_keepalived()
    w._lock.on_release = None
    if not inv(w, conns):
        return False
    for i, c in enumerate(conns):
        if phases[i] == PH_KEEP:
            if (c.sock.closed == 1) != (deadlines[i] <= now):
                return False              # closed once the keep-alive time has passed, and not before
        elif phases[i] == PH_NEW:
            if c.sock.closed:
                return False
    return True


def step_readable(phases: List[int], deadlines: List[int], which: int, tape: List[int]) -> bool:
    """
    pre: _pre(phases, deadlines)
    pre: all(0 <= p <= 2 for p in phases) and all(90 <= d <= 110 for d in deadlines)
    pre: 0 <= which < len(phases) and phases[which] != 1
    pre: len(tape) <= CASE["tape"] and all(0 <= e <= 3 for e in tape)
    post: __return__
    """
    W.CLOCK[0] = 111
    w, conns = mk(phases, deadlines)
    if not inv(w, conns):
        return True
    c = conns[which]
    before = len(w.tpool.submitted)
    arm_interleaving(w, conns, tape)
    cb = w.poller.reg[c.sock]
    cb(c.sock)
    w._lock.on_release = None
    # the submitted job belongs to this connection (the harness pool cannot see the argument binding)
    new = w.tpool.submitted[before:]
    if len(new) != 1 or new[0].conn is not c:
        return False                       # a connection on which a request arrived is dispatched to a handler
    if c.sock.closed or c in w._keep or c.sock in w.poller.reg or not c.initialized:
        return False                       # never closed while its request is being handled
    return inv(w, conns)


def step_accept(phases: List[int], deadlines: List[int], fail: int) -> bool:
    """
    pre: _pre(phases, deadlines)
    pre: all(0 <= p <= 2 for p in phases) and all(90 <= d <= 110 for d in deadlines)
    pre: 0 <= fail <= 2
    post: __return__
    """
    w, conns = mk(phases, deadlines)
    if not inv(w, conns):
        return True
    fail = pick(fail, 0, 2)
    new = Sock(99)

    class L:
        def accept(self_):
            if fail == 1:
                raise OSError(errno.EAGAIN, "again")
            if fail == 2:
                raise OSError(errno.ECONNABORTED, "aborted")
            return new, ("c", 99)
    n0 = w.nr_conns
    w.accept(("s", 1), L())
    if fail:
        return w.nr_conns == n0 and inv(w, conns)
    c = SimpleNamespace(sock=new)
    return w.nr_conns == n0 + 1 and new in w.poller.reg and new.closed == 0 and new.blocking is False


def run_iter(phases: List[int], deadlines: List[int], ready: List[bool], now: int) -> bool:
    """
    pre: _pre(phases, deadlines) and len(ready) == CASE["k"] + CASE["listeners"]
    pre: all(0 <= p <= 2 for p in phases) and all(90 <= d <= 110 for d in deadlines) and 90 <= now <= 110
    post: __return__
    """
    wc = CASE["wc"]
    w, conns = mk(phases, deadlines, wc=wc, threads=1)
    if not inv(w, conns) or w.nr_conns > wc:
        return True
    for i in range(len(phases)):
        if phases[i] == PH_KEEP and deadlines[i] > now + 2:
            return True
    W.CLOCK[0] = now
    nl = CASE["listeners"]
    news = [Sock(90 + i) for i in range(nl)]

    class L(RecSock):
        def __init__(self_, i):
            super().__init__()
            self_.i = i

        def accept(self_):
            return news[self_.i], ("c", 90 + self_.i)
    listeners = [L(i) for i in range(nl)]
    w.sockets = listeners
    iters = [0]

    class P(W.Poller):
        def select(self_, timeout):
            evs = []
            for i, l in enumerate(listeners):
                if ready[len(conns) + i]:
                    evs.append((SimpleNamespace(data=self_.reg[l], fileobj=l), 1))
            for i, c in enumerate(conns):
                if ready[i] and c.sock in self_.reg:
                    evs.append((SimpleNamespace(data=self_.reg[c.sock], fileobj=c.sock), 1))
            return evs
    p = P()
    p.reg = w.poller.reg
    p.order = w.poller.order
    w.poller = p

    def notify():
        iters[0] += 1
        w.alive = False                   # `while self.alive:` has already been evaluated: exactly one iteration
    w.tmp = SimpleNamespace(notify=notify)

    def fwait(fs, timeout=None, return_when=None):
        return SimpleNamespace(done=[], not_done=list(fs))
    saved = G.futures, G.os
    G.futures = ns("G.futures", wait=fwait, FIRST_COMPLETED="FIRST_COMPLETED")
    G.os = ns("G.os", getppid=lambda: 1)
    try:
        # one loop iteration: run() registers the listeners, then loops while alive (the 2nd notify stops it)
        w.run()
    finally:
        G.futures, G.os = saved
    nopen = len([c for c in conns if not c.sock.closed]) + len([s for s in news if s.blocking is not None and not s.closed])
    if w.nr_conns != nopen:
        return False
    if w.nr_conns > wc:
        return False                                    # never more simultaneously open connections than configured
    for i, c in enumerate(conns):
        if phases[i] == PH_FLIGHT and c.sock.closed:
            return False                                # not while a request on it is being handled
        if phases[i] == PH_KEEP and not ready[i] and (c.sock.closed == 1) != (deadlines[i] <= now):
            return False
    return True


REQ1 = b"GET /one HTTP/1.1\r\nHost: h\r\n\r\n"
REQ2 = b"GET /two HTTP/1.1\r\nHost: h\r\n\r\n"


def split_second(cut: int, nwait: int) -> bool:
    """
    pre: 1 <= cut < len(REQ2) and 0 <= nwait <= 2
    post: __return__
    """
    # a later request on a kept-alive connection arrives in two segments with a pause in between: it is served as long as a
    # handler thread is free (the handler must be working on a blocking socket again)
    from engine.stubs.recsock import WAIT
    cut, nwait = pick(cut, 1, len(REQ2) - 1), pick(nwait, 0, 2)
    calls = []

    def app(environ, start_response):
        calls.append(environ["RAW_URI"])
        start_response("200 OK", [("Content-Length", "2")])
        return [b"ok"]
    cfg = W.make_cfg(keepalive=2, threads=2, worker_connections=4)
    w = W.thread_worker(cfg, app)
    w._keep.clear()
    c = RecSock([REQ1, REQ2[:cut]] + [WAIT] * nwait + [REQ2[cut:]])
    W.gthread_serve(w, c, max_dispatch=5)
    from oracles import http_response as hr
    try:
        rs = hr.parse_stream(c.wire(), [False, False])
    except hr.Bad:
        return False
    return calls == ["/one", "/two"] and len(rs) == 2 and all(r["complete"] and r["body"] == b"ok" for r in rs) and c.closed >= 1


def admission(nkeep: int, wc: int, threads: int) -> bool:
    """
    pre: 0 <= nkeep <= 3 and 1 <= threads <= 2 and threads <= wc <= 4
    post: __return__
    """
    # a finished request is only kept alive while fewer than worker_connections - threads idle connections are parked:
    # otherwise parked connections could fill the worker while handler threads sit idle
    nkeep, wc, threads = pick(nkeep, 0, 3), pick(wc, 1, 4), pick(threads, 1, 2)
    if threads > wc:
        return True
    cfg = W.make_cfg(keepalive=2, threads=threads, worker_connections=wc)
    w = W.thread_worker(cfg, lambda e, s: (s("200 OK", [("Content-Length", "2")]) and None) or [b"ok"], keep=nkeep)
    c = RecSock([REQ1])
    res, conn = W.run_connection("gthread", w, c)
    keepalive = res[0]
    limit = wc - threads
    return keepalive == (nkeep < limit)


def step_twin(phases: List[int], deadlines: List[int], now: int, tape: List[int]) -> bool:
    """
    pre: _pre(phases, deadlines)
    pre: all(0 <= p <= 2 for p in phases) and all(90 <= d <= 110 for d in deadlines) and 90 <= now <= 110
    pre: len(tape) <= CASE["tape"] and all(0 <= e <= 3 for e in tape)
    post: __return__
    """
    # witness: a state with one expired keep-alive conn, one live one and one in flight; the in-flight one completes
    # (keep-alive) at a lock release inside murder_keepalived
    if not (list(phases) == [2, 2, 1] and deadlines[0] <= now < deadlines[1] <= now + 2 and list(tape)[:1] == [1]):
        return True
    w, conns = mk(phases, deadlines)
    W.CLOCK[0] = now
    arm_interleaving(w, conns, tape)
    w.murder_keepalived()
    return not (conns[0].sock.closed == 1 and conns[1].sock.closed == 0 and conns[2] in w._keep)


OBLIGATIONS = [
    Ob("C13.finish", "step_finish", cases=[{"k": k} for k in (1, 2, 3)] + [{"k": 2, "peer_gone": True}], timeout=600,
       bound="<=3 connections in arbitrary phases; completion outcome {result keepalive|close, exception, cancelled}; alive flag"),
    Ob("C13.finish_race", "step_finish_race", cases=[{"k": k} for k in (1, 2, 3)], timeout=600,
       bound="keep-alive completion with the poller firing the readable callback at the moment of registration"),
    Ob("C13.murder", "step_murder", cases={"quick": [{"k": k, "tape": 2} for k in (1, 2, 3)] + [{"k": 2, "tape": 1, "peer_gone": True}],
                                           "thorough": [{"k": k, "tape": 4} for k in (1, 2, 3)] + [{"k": 3, "tape": 2, "peer_gone": True}]},
       timeout={"quick": 600, "thorough": 2400},
       bound="<=3 connections, symbolic deadlines/clock in 90..110, handler completions injected at <=2 (thorough 4) lock releases"),
    Ob("C13.readable", "step_readable", cases={"quick": [{"k": k, "tape": 2} for k in (1, 2, 3)],
                                               "thorough": [{"k": k, "tape": 3} for k in (1, 2, 3)]},
       timeout={"quick": 600, "thorough": 2400},
       bound="<=3 connections; a registered (new or keep-alive) connection becomes readable; completions at lock releases"),
    Ob("C13.accept", "step_accept", cases=[{"k": k} for k in (0, 1, 2, 3)], timeout=300,
       bound="accept succeeding / EAGAIN / ECONNABORTED from any state of <=3 connections"),
    Ob("C13.run_iter", "run_iter",
       cases={"quick": [{"k": 2, "wc": 3, "listeners": 1}, {"k": 2, "wc": 2, "listeners": 1}],
              "thorough": [{"k": 3, "wc": 4, "listeners": 1}, {"k": 3, "wc": 3, "listeners": 1}, {"k": 2, "wc": 3, "listeners": 2}]},
       timeout={"quick": 900, "thorough": 2400},
       bound="one iteration of run() from any state of 2 (thorough 3) connections at or below worker_connections, any subset "
             "of listeners/connections readable, symbolic clock"),
    Ob("C13.split_second", "split_second", timeout=600,
       bound="second request of a kept-alive connection split at any offset with 0..2 pauses between the segments"),
    Ob("C13.admission", "admission", timeout=300,
       bound="0..3 parked keep-alive connections x worker_connections 1..4 x threads 1..2: kept alive iff parked < connections - threads"),
    Ob("C13.twin", "step_twin", cases=[{"k": 3, "tape": 2}], expect="refute", timeout=300),
]

"""C20 - workers always run with exactly the configured user and group (privilege-drop logic).

  1 owner     the real util.set_owner_process(uid, gid, initgroups) under the POSIX credential model: afterwards real =
              effective = saved = the configured id for both user and group and, with initgroups and a known user, the
              supplementary groups are exactly that user's (+ the configured gid); nothing raises
  2 files     WorkerTmp.__init__ and UnixSocket.bind: the heartbeat file / socket path end up owned by (uid, gid) whenever
              the worker will run under another identity than the master; the umask is restored
  3 path      the child branch of the real Arbiter.spawn_worker (fork() == 0) for workers created by manage_workers,
              TTIN, reload and a master started after USR2: Worker.init_process is reached and set_owner_process is called
              with (cfg.uid, cfg.gid, cfg.initgroups) before the application is loaded, and before run()
"""
import signal
from types import SimpleNamespace

from engine.harness_api import Ob, setup, pick, ns
setup(shim=False)

import gunicorn.arbiter as A  # noqa: E402
import gunicorn.util as U  # noqa: E402
import gunicorn.sock as GS  # noqa: E402
import gunicorn.workers.base as WB  # noqa: E402
import gunicorn.workers.workertmp as WT  # noqa: E402
from engine.stubs import kernel as KS  # noqa: E402
from engine.stubs.cred import Cred, install  # noqa: E402
from harness.c03 import mk_arbiter  # noqa: E402

PROPERTY = "C20"
CASE = {}
KERNELS = ["gunicorn.util:set_owner_process", "gunicorn.util:get_username", "gunicorn.workers.workertmp:WorkerTmp.__init__",
           "gunicorn.sock:UnixSocket.bind", "gunicorn.arbiter:Arbiter.spawn_worker", "gunicorn.workers.base:Worker.init_process",
           "gunicorn.arbiter:Arbiter.manage_workers", "gunicorn.arbiter:Arbiter.reload", "gunicorn.arbiter:Arbiter.handle_ttin"]
STUBS = ["engine/stubs/cred.py: setuid/setgid/initgroups/getpwuid credential model (contract checked against the sandbox kernel)",
         "workertmp / sock: os.umask, tempfile.mkstemp, util.chown, util.unlink, os.fdopen, socket.bind -> ownership table",
         "spawn path: simulated kernel with fork() returning 0, Worker.run / load_wsgi / signal + fd plumbing -> recorders"]
ASSUMPTIONS = ["the master runs as root (uid 0, gid 0) or as an ordinary user (no-op cases)", "uid/gid are ints as produced by "
               "the config validators; 0 means 'not configured / root'"]
OUTSIDE = ["/proc/<pid>/status of live processes across HUP/USR2 histories", "supplementary groups when initgroups is off "
           "(documented behaviour: they stay the master's)"]

UIDS = [0, 1000, 1001, 65534]
GIDS = [0, 1000, 50, 65534, 2147483648, 3000000000]
USERS = {1000: ("app", [1000, 50]), 65534: ("nobody", [65534])}


def owner(ui: int, gi: int, ig: bool, root: bool, mg: int) -> bool:
    """
    pre: 0 <= ui <= 3 and 0 <= gi <= 5 and 0 <= mg <= 3
    post: __return__
    """
    uid, gid = UIDS[pick(ui, 0, 3)], GIDS[pick(gi, 0, 5)]
    if root:
        # a privileged master, whose own primary group may already be the configured one
        cred = Cred(0, GIDS[pick(mg, 0, 3)], (0, 4), USERS)
    else:
        # unprivileged master: only the no-op configuration (its own ids) is meaningful
        cred = Cred(1000, 1000, (1000,), USERS)
        uid, gid = (1000 if uid else 0), (1000 if gid else 0)
        ig = False                         # initgroups needs privilege: not a meaningful configuration here
    undo = install(U, cred)
    try:
        U.set_owner_process(uid, gid, initgroups=ig)
    finally:
        undo()
    if uid:
        if not (cred.ruid == cred.euid == cred.suid == uid):
            return False
    if gid:
        if not (cred.rgid == cred.egid == cred.sgid == gid):
            return False
    if not uid and (cred.ruid, cred.euid, cred.suid) != ((0, 0, 0) if root else (1000, 1000, 1000)):
        return False
    if root and ig and uid in USERS and gid:
        if cred.groups != set(USERS[uid][1]) | {gid}:
            return False
    return True


def owner_twin(ui: int, gi: int, ig: bool, root: bool, mg: int) -> bool:
    """
    pre: 0 <= ui <= 3 and 0 <= gi <= 5 and 0 <= mg <= 3
    post: __return__
    """
    if not (root and ig and ui == 1 and gi == 2):
        return True
    cred = Cred(0, 0, (0, 4), USERS)
    undo = install(U, cred)
    try:
        U.set_owner_process(1000, 50, initgroups=True)
    finally:
        undo()
    return not (cred.rgid == 50 and cred.ruid == 1000 and cred.groups == {1000, 50})


# ---- 2. heartbeat file / unix socket ownership -----------------------------------------------------------------------------
def files(ui: int, gi: int, root: bool, dirgid: int) -> bool:
    """
    pre: 0 <= ui <= 3 and 0 <= gi <= 5 and 0 <= dirgid <= 3
    post: __return__
    """
    uid, gid = UIDS[pick(ui, 0, 3)], GIDS[pick(gi, 0, 5)]
    dirgid = GIDS[pick(dirgid, 0, 3)]       # set-group-id directory / BSD semantics: a new file takes the directory's group
    me = (0, 0) if root else (1000, 1000)
    if not root:
        uid, gid = 1000, 1000             # an unprivileged master can only configure itself
    owners = {}
    umask = [0o22]
    log = []

    def set_umask(m):
        old = umask[0]
        umask[0] = m
        return old

    def mkstemp(prefix=None, dir=None):
        owners["/tmp/wg"] = me
        return 77, "/tmp/wg"

    def chown(path, u, g):
        log.append(("chown", path, u, g))
        owners[path] = (u if u != -1 else owners[path][0], g if g != -1 else owners[path][1])
    saved = (WT.os, WT.tempfile, WT.util, GS.os, GS.util, WT.time)
    WT.time = ns("WT.time", monotonic=lambda: 5.0)
    WT.os = ns("WT.os", umask=set_umask, geteuid=lambda: me[0], getegid=lambda: me[1],
                            fdopen=lambda fd, m, b: SimpleNamespace(fd=fd, fileno=lambda: fd, close=lambda: None),
                            utime=lambda fd, times: log.append(("utime", fd)), fstat=lambda fd: SimpleNamespace(st_mtime=5.0),
                            close=lambda fd: None, path=SimpleNamespace(isdir=lambda d: True))
    WT.tempfile = ns("WT.tempfile", mkstemp=mkstemp)
    WT.util = ns("WT.util", chown=chown, unlink=lambda n: log.append(("unlink", n)))
    GS.os = ns("GS.os", umask=set_umask, geteuid=lambda: me[0], getegid=lambda: me[1], getuid=lambda: me[0],
               getgid=lambda: me[1])
    GS.util = ns("GS.util", chown=chown)
    try:
        cfg = SimpleNamespace(umask=0o7, worker_tmp_dir=None, uid=uid, gid=gid)
        WT.WorkerTmp(cfg)
        if umask[0] != 0o22:
            return False
        if owners["/tmp/wg"] != (uid, gid):
            return False                    # the worker (running as uid/gid) must be able to touch its heartbeat file
        # unix socket
        us = object.__new__(GS.UnixSocket)
        us.conf = cfg
        us.cfg_addr = "/run/g.sock"

        class S:
            def bind(self_, addr):
                owners[addr] = (me[0], dirgid)
        us.bind(S())
        if umask[0] != 0o22 or owners["/run/g.sock"] != (uid, gid):
            return False
    finally:
        WT.os, WT.tempfile, WT.util, GS.os, GS.util, WT.time = saved
    return True


# ---- 3. every generation goes through the same child path -------------------------------------------------------------------
class _Stop(BaseException):
    pass


def spawn_path(entry: int, ig: bool, ui: int, gi: int, mi: int) -> bool:
    """
    pre: 0 <= entry <= 3 and 0 <= ui <= 3 and 0 <= gi <= 3 and 0 <= mi <= 2
    post: __return__
    """
    entry = pick(entry, 0, 3)
    # who the master is: root, or an ordinary uid (which may still hold CAP_SETUID/CAP_SETGID - the decision whether the
    # switch is possible is the kernel's, made in set_owner_process, not the worker's)
    m_uid, m_gid = [(0, 0), (990, 990), (1000, 1000)][pick(mi, 0, 2)]
    uid, gid = UIDS[pick(ui, 0, 3)], GIDS[pick(gi, 0, 3)]
    K = KS.Kernel()
    arb = mk_arbiter(K, 1, ages=[1] if entry in (1, 2) else [])
    trace = []

    class App:
        def wsgi(self_):
            trace.append("load_wsgi")
            return lambda e, s: []

        def reload(self_):
            pass
    arb.app = App()
    arb.app.cfg = arb.cfg
    hook = lambda *a, **k: None  # noqa: E731
    arb.cfg.uid, arb.cfg.gid, arb.cfg.initgroups = uid, gid, ig
    arb.cfg.env = {}
    arb.cfg.env_orig = {}
    arb.cfg.reload = False
    arb.cfg.post_fork = hook
    arb.cfg.post_worker_init = hook
    arb.cfg.on_reload = hook
    arb.cfg.max_requests = 0
    arb.cfg.max_requests_jitter = 0
    arb.cfg.settings = {}
    arb.cfg.preload_app = False
    arb.cfg.address = []
    arb.cfg.timeout = 30
    arb.cfg.logger_class = None
    arb.cfg.workers = 2 if entry == 2 else arb.cfg.workers
    if entry == 3:
        arb.master_pid = 40                 # a master that was started by USR2 from an old one
        K.ppid = 40

    class TWorker(WB.Worker):
        def run(self_):
            trace.append("run")
            raise _Stop()
    arb.worker_class = TWorker
    arb.cfg.worker_class = TWorker
    undo = KS.install(A, K)
    A.os.fork = lambda: 0                   # we are the child
    A.sock = ns("A.sock", create_sockets=lambda *a, **k: [], close_sockets=lambda l, u=True: None)
    saved = (WB.WorkerTmp, WB.util, WB.os, WB.signal)
    WB.WorkerTmp = lambda cfg: SimpleNamespace(close=lambda: None, fileno=lambda: 9, notify=lambda: None)
    WB.util = ns("WB.util", set_owner_process=lambda u, g, initgroups=False: trace.append(("set_owner", u, g, initgroups)),
                              seed=lambda: None, set_non_blocking=lambda fd: None, close_on_exec=lambda fd: None)
    WB.os = ns("WB.os", pipe=lambda: (90, 91), environ={}, write=lambda fd, d: None, geteuid=lambda: m_uid, getuid=lambda: m_uid,
               getegid=lambda: m_gid, getgid=lambda: m_gid, getpid=lambda: 4242)
    WB.signal = ns("WB.signal", **{k: getattr(signal, k) for k in dir(signal) if k.startswith("SIG")},
                                signal=lambda s, h: None, siginterrupt=lambda s, f: None, set_wakeup_fd=lambda fd: None)
    arb.log = SimpleNamespace(**{k: hook for k in ("debug", "info", "warning", "error", "exception", "critical",
                                                   "close_on_exec", "reopen_files")})
    try:
        try:
            if entry == 0:
                arb.manage_workers()
            elif entry == 1:
                arb.handle_ttin()
            elif entry == 2:
                arb.reload()
            else:
                arb.manage_workers()
        except _Stop:
            pass
        except SystemExit:
            return False
    finally:
        undo()
        WB.WorkerTmp, WB.util, WB.os, WB.signal = saved
    # identity first, then the application, then the request loop
    return trace == [("set_owner", uid, gid, ig), "load_wsgi", "run"]


# a reload that cannot load its configuration must not produce a generation started from defaults (= the master's own ids):
# the obligation lives in harness/c10.py (real Application.reload) and is discharged here as well
from harness.c10 import reload_broken  # noqa: E402,F401

OBLIGATIONS = [
    Ob("C20.owner", "owner", timeout=300,
       bound="uid in {0,1000,1001,65534}, gid in {0,1000,50,65534,2**31,3000000000}, initgroups on/off, master root (with primary gid from the same set) or unprivileged; users 1000 and "
             "65534 known, 1001 unknown"),
    Ob("C20.owner.twin", "owner_twin", expect="refute", timeout=60),
    Ob("C20.files", "files", timeout=300, bound="same ids: WorkerTmp heartbeat file and UnixSocket.bind ownership (socket directory handing its own group to new files), umask restored"),
    Ob("C20.spawn_path", "spawn_path", timeout=600,
       bound="child side of spawn_worker reached from manage_workers / TTIN / reload / a USR2-started master, all id combinations, "
             "master running as root or as an ordinary uid"),
    Ob("C20.reload_broken", "reload_broken", timeout=300,
       bound="real Application.reload with a broken config file (unreadable / rejected value / wrong type) and command-line settings: "
             "the master stops with an error or keeps every source - never a half-loaded configuration for the next generation"),
]

"""C19 - every handled request is logged once, truthfully, on a single line.

  1 once      the real handle() of sync / gthread / async-base with solver-chosen application behaviour (iterable, write()
              callable, file wrapper with/without fileno, raising before start_response / before the first byte / after the
              head was sent) and a counting logger: exactly one access record when the application call completes, at
              most one for a request the server rejects itself
  2 truthful  the record's status is the status on the wire and resp.sent equals the number of body bytes on the wire,
              for every production mode and Content-Length / chunk-length combination
  3 line      the real Logger.atoms + SafeAtoms + access_log_format % atoms: with an arbitrary string in any
              client-controlled source (request target, query, path, header value, response header, basic-auth user)
              the rendered record contains no CR and no LF, for every documented atom
"""
import base64
import datetime
from types import SimpleNamespace

from engine.harness_api import Ob, setup, pick
setup(shim=False)

from gunicorn.http import wsgi  # noqa: E402
import gunicorn.glogging as GL  # noqa: E402
from engine.stubs import workers as W  # noqa: E402
from engine.stubs.recsock import FakeFile, RecSock  # noqa: E402
from oracles import http_response as hr  # noqa: E402

W.install_clock()
W.install_fileos()

PROPERTY = "C19"
CASE = {}
KERNELS = ["gunicorn.glogging:Logger.atoms", "gunicorn.glogging:SafeAtoms.__init__", "gunicorn.glogging:SafeAtoms.__getitem__",
           "gunicorn.glogging:Logger._get_user", "gunicorn.workers.base:Worker.handle_error",
           "gunicorn.workers.sync:SyncWorker.handle_request", "gunicorn.workers.gthread:ThreadWorker.handle_request",
           "gunicorn.workers.base_async:AsyncWorker.handle_request", "gunicorn.http.wsgi:Response.write",
           "gunicorn.http.wsgi:Response.sendfile", "gunicorn.http.wsgi:Response.write_file"]
STUBS = ["logger -> counting stub recording (status, sent) (obligations 1, 2); real Logger methods on an object without "
         "handlers (obligation 3)", "sockets -> RecSock; fake file + lseek/fstat; constant clock; time.strftime as is"]
ASSUMPTIONS = ["'a single line' = no CR / LF in the rendered record"]
OUTSIDE = ["gevent/eventlet", "custom logger classes", "the error log", "syslog / dogstatsd transports"]

REQ = b"GET /a?b HTTP/1.1\r\nHost: h\r\n\r\n"
MODES = ["iter", "write", "file", "filenofd", "raise_before", "raise_first", "raise_mid", "late_error", "early_error",
         "close_raises", "head", "s304"]


def _serve(kind, w, c):
    if kind == "gthread":
        W.gthread_serve(w, c)
    else:
        W.run_connection(kind, w, c)


def once(mi: int, cl: int, n1: int, n2: int) -> bool:
    """
    pre: 0 <= mi <= 11 and -1 <= cl <= 3 and 0 <= n1 <= 2 and 0 <= n2 <= 2
    post: __return__
    """
    mode = MODES[pick(mi, 0, 11)]
    cl, n1, n2 = pick(cl, -1, 3), pick(n1, 0, 2), pick(n2, 0, 2)
    short = cl > n1 + n2               # the application declares more than it delivers: framing is its problem (C02 assumes
    if short and cl > n1 + n2 + 1:     # it away), but the log must still report what was really sent
        return True
    kind = CASE["kind"]
    chunks = [b"ab"[:n1], b"cd"[:n2]]
    completed = []

    def app(environ, start_response):
        hdrs = [("Content-Type", "text/plain")] + ([("Content-Length", str(cl))] if cl >= 0 else [])
        if mode == "raise_before":
            raise ValueError("app blew up")
        if mode in ("late_error", "early_error"):
            # the application reports an error through start_response(..., exc_info): before anything was sent the new
            # status replaces the old one; after the head went out the call re-raises, which this application swallows -
            # either way the record must carry the status that is on the wire
            wr = start_response("200 OK", hdrs)
            if mode == "late_error" and chunks[0]:
                wr(chunks[0])
            try:
                start_response("500 Oops", hdrs, (ValueError, ValueError("late"), None))
            except ValueError:
                pass
            completed.append(1)
            return [chunks[1]] if mode == "late_error" else chunks
        if mode == "close_raises":
            # the body is produced normally; the iterable's close() (called by the server after the last piece) fails
            class It:
                def __iter__(self_):
                    return iter(chunks)

                def close(self_):
                    raise ValueError("close() failed")
            start_response("200 OK", hdrs)
            completed.append(1)
            return It()
        if mode == "s304":
            # a conditional GET answered 304 that keeps the representation's Content-Length, no body
            start_response("304 Not Modified", hdrs)
            completed.append(1)
            return []
        if mode == "head":
            # HEAD: the head of the GET response (Content-Length of the representation), no body
            start_response("200 OK", hdrs)
            completed.append(1)
            return []
        if mode == "write":
            wr = start_response("200 OK", hdrs)
            for ch in chunks:
                wr(ch)
            completed.append(1)
            return []
        start_response("200 OK", hdrs)
        if mode in ("file", "filenofd"):
            f = FakeFile(b"".join(chunks), with_fileno=(mode == "file"))
            W.FILEOS.files[99] = f
            completed.append(1)
            return environ["wsgi.file_wrapper"](f)
        if mode == "raise_first":
            def gen():
                raise ValueError("no first chunk")
                yield b""
            return gen()
        if mode == "raise_mid":
            def gen2():
                yield b"x"
                raise ValueError("after the head was sent")
            return gen2()
        completed.append(1)
        return chunks
    cfg = W.make_cfg(keepalive=2)
    mk = {"sync": W.sync_worker, "gthread": W.thread_worker, "async": W.async_worker}[kind]
    w = mk(cfg, app)
    head = mode == "head"
    c = RecSock([REQ.replace(b"GET ", b"HEAD ", 1) if head else REQ])
    _serve(kind, w, c)
    recs = w.log.access_calls
    if mode in ("head", "s304") and completed:
        # nothing but the head goes out: the record says 0 body bytes, whatever Content-Length was declared
        if len(recs) != 1:
            return False
        try:
            rs = hr.parse_stream(c.wire(), [True])
        except hr.Bad:
            return False
        w.log.render = True
        return len(rs) == 1 and recs[0][1] == 0 and recs[0][0].startswith(str(rs[0]["code"])) and _logged_bytes(w, recs) == 0
    if completed:
        if len(recs) != 1:
            return False
        status, sent, _ = recs[0]
        raw = c.wire()
        try:
            rs = hr.parse_stream(raw, [False])
        except hr.Bad:
            return False
        if short:
            return len(rs) == 1 and sent == len(rs[0]["body"]) and status.startswith(str(rs[0]["code"]))
        if len(rs) != 1 or not rs[0]["complete"]:
            return False
        # truthful: status as on the wire, bytes = body bytes actually sent
        if not status.startswith(str(rs[0]["code"])):
            return False
        return sent == len(rs[0]["body"])
    # the application raised: the property only bounds records for requests the server itself rejects; the worker must
    # survive and close the connection
    return c.closed >= 1 and w.alive


def _logged_bytes(w, recs):
    """%(B)s of the record as the real Logger.atoms() computes it from the response object that was logged"""
    lg = mk_logger()
    resp = SimpleNamespace(status=recs[0][0], sent=recs[0][1], response_length=recs[0][2], headers=[])
    atoms = lg.atoms(resp, SimpleNamespace(headers=[]), {"REQUEST_METHOD": "GET", "RAW_URI": "/", "SERVER_PROTOCOL": "HTTP/1.1"},
                     datetime.timedelta(seconds=1))
    b = atoms["B"]
    return 0 if b in (None, "-") else int(b)


def once_twin(mi: int, cl: int, n1: int, n2: int) -> bool:
    """
    pre: 0 <= mi <= 6 and -1 <= cl <= 3 and 0 <= n1 <= 2 and 0 <= n2 <= 2
    post: __return__
    """
    if not (mi == 2 and cl == -1 and n1 == 2 and n2 == 1):
        return True
    return not once(mi, cl, n1, n2)          # witness: file wrapper via sendfile, 3 bytes, chunked


def rejected(ri: int) -> bool:
    """
    pre: 0 <= ri <= 5
    post: __return__
    """
    reqs = [b"GET /\r\n\r\n", b"GET / HTTP/1.1\r\nfoo\r\n\r\n",
            b"GET / HTTP/1.1\r\nContent-Length: 3\r\nTransfer-Encoding: chunked\r\n\r\n",
            b"GET / HTTP/1.1\r\nTransfer-Encoding: foo\r\n\r\n", b"G<T / HTTP/1.1\r\n\r\n", b"GET / HT"]
    data = reqs[pick(ri, 0, 5)]
    kind = CASE["kind"]
    calls = []
    cfg = W.make_cfg(keepalive=2)
    mk = {"sync": W.sync_worker, "gthread": W.thread_worker, "async": W.async_worker}[kind]
    w = mk(cfg, lambda e, s: calls.append(1))
    c = RecSock([data])
    _serve(kind, w, c)
    return not calls and len(w.log.access_calls) <= 1


def keepalive_reject(ri: int, kind_i: int) -> bool:
    """
    pre: 0 <= ri <= 5 and 0 <= kind_i <= 1
    post: __return__
    """
    # a served request followed, on the same keep-alive connection, by one the server rejects itself: the first request
    # keeps its single truthful record; the rejected one adds at most one, and never one that names the first request
    reqs = [b"GET /\r\n\r\n", b"GET / HTTP/1.1\r\nfoo\r\n\r\n",
            b"GET / HTTP/1.1\r\nContent-Length: 3\r\nTransfer-Encoding: chunked\r\n\r\n",
            b"GET / HTTP/1.1\r\nTransfer-Encoding: foo\r\n\r\n", b"G<T / HTTP/1.1\r\n\r\n", b"GET / HT"]
    bad = reqs[pick(ri, 0, 5)]
    kind = ["gthread", "async"][pick(kind_i, 0, 1)]
    calls = []

    def app(environ, start_response):
        calls.append(environ["RAW_URI"])
        start_response("200 OK", [("Content-Length", "2")])
        return [b"ok"]
    cfg = W.make_cfg(keepalive=2)
    w = (W.thread_worker if kind == "gthread" else W.async_worker)(cfg, app)
    c = RecSock([b"GET /first HTTP/1.1\r\nHost: h\r\n\r\n", bad])
    _serve(kind, w, c)
    recs = w.log.access_calls
    reqs_logged = w.log.access_reqs
    if calls != ["/first"] or not recs:
        return False
    if not recs[0][0].startswith("200") or recs[0][1] != 2:
        return False
    if len(recs) > 2:
        return False
    first_req = reqs_logged[0]
    for r in reqs_logged[1:]:
        if r is first_req:
            return False                # the served request must not be logged again with the rejection's status
    return True


# ---- 3. line integrity -------------------------------------------------------------------------------------------------------
SOURCES = ["raw_uri", "query", "path", "referer", "user_agent", "req_header", "resp_header", "environ", "user", "method",
           "remote_addr"]
ATOMS = ["h", "l", "u", "t", "r", "s", "m", "U", "q", "H", "b", "B", "f", "a", "T", "D", "M", "L", "p", "{x-h}i", "{x-o}o",
         "{xvar}e", "{missing}i"]


def mk_logger():
    lg = object.__new__(GL.Logger)
    lg.cfg = SimpleNamespace()
    lg.debug = lambda *a, **k: None
    return lg


def render(source, s, fmt):
    environ = {"REMOTE_ADDR": "10.0.0.9", "REQUEST_METHOD": "GET", "RAW_URI": "/a", "SERVER_PROTOCOL": "HTTP/1.1",
               "PATH_INFO": "/a", "QUERY_STRING": "", "xvar": "v"}
    req_headers = [("HOST", "h"), ("X-H", "hv")]
    resp_headers = [("X-O", "ov")]
    if source == "raw_uri":
        environ["RAW_URI"] = s
    elif source == "query":
        environ["QUERY_STRING"] = s
    elif source == "path":
        environ["PATH_INFO"] = s
    elif source == "referer":
        environ["HTTP_REFERER"] = s
    elif source == "user_agent":
        environ["HTTP_USER_AGENT"] = s
    elif source == "req_header":
        req_headers[1] = ("X-H", s)
    elif source == "resp_header":
        resp_headers[0] = ("X-O", s)
    elif source == "environ":
        environ["xvar"] = s
    elif source == "method":
        environ["REQUEST_METHOD"] = s
    elif source == "remote_addr":
        environ["REMOTE_ADDR"] = s
    elif source == "authorization":
        environ["HTTP_AUTHORIZATION"] = s
    elif source == "user":
        environ["HTTP_AUTHORIZATION"] = "Basic " + base64.b64encode((s + ":pw").encode("utf-8", "surrogatepass")).decode()
    resp = SimpleNamespace(status="200 OK", sent=5, headers=resp_headers)
    req = SimpleNamespace(headers=req_headers)
    lg = mk_logger()
    atoms = lg.atoms(resp, req, environ, datetime.timedelta(seconds=1, microseconds=5))
    return fmt % GL.SafeAtoms(atoms)


def line(s: str) -> bool:
    """
    pre: len(s) == CASE["n"]
    post: __return__
    """
    fmt = "%(" + CASE["atom"] + ")s|"
    out = render(CASE["source"], s, fmt)
    for ch in out:
        if ch == "\n" or ch == "\r":
            return False
    return True


USER_CHARS = ["a", ":", "\n", "\r", '"', "\xe9", "\x00", "\\", "%", " "]


def line_user(i1: int, i2: int, i3: int) -> bool:
    """
    pre: 0 <= i1 <= 9 and 0 <= i2 <= 9 and 0 <= i3 <= 9
    post: __return__
    """
    s = "".join(USER_CHARS[pick(i, 0, 9)] for i in (i1, i2, i3)[:CASE["n"]])
    out = render("user", s, "%(u)s|%(h)s %(l)s %(u)s %(t)s \"%(r)s\" %(s)s %(b)s \"%(f)s\" \"%(a)s\"")
    return "\n" not in out and "\r" not in out


AUTH_VALUES = ["Basic", "basic", "Negotiate", "Basic ", " Basic", "Basic  ", "Basic !!!", "Basic YTpi", "Basic\tYTpi", "BasicYTpi",
               "Bearer x y", "", " ", "Basic YTpi extra", "Basic =", "Digest username=\"a\"", "Basic Og==", "Basic 4pyT"]


def auth_values(i: int) -> bool:
    """
    pre: 0 <= i < len(AUTH_VALUES)
    post: __return__
    """
    # whatever the client puts into Authorization (any scheme, one token or several, broken base64): the record is still
    # produced - atoms() does not raise - and stays on one line
    i = pick(i, 0, len(AUTH_VALUES) - 1)
    out = render("authorization", AUTH_VALUES[i], "%(u)s|%(h)s %(l)s %(u)s \"%(r)s\" %(s)s %(b)s")
    return "\n" not in out and "\r" not in out and out.count("|") == 1


def line_twin(s: str) -> bool:
    """
    pre: len(s) == CASE["n"]
    post: __return__
    """
    out = render(CASE["source"], s, "%(" + CASE["atom"] + ")s|")
    return "\\n" not in out            # witness: an LF reached the atom and was escaped


_LINE = [("authorization", "u"), ("raw_uri", "r"), ("raw_uri", "{raw_uri}e"), ("query", "q"), ("path", "U"), ("referer", "f"), ("user_agent", "a"),
         ("req_header", "{x-h}i"), ("resp_header", "{x-o}o"), ("environ", "{xvar}e"), ("method", "m"), ("method", "r"),
         ("remote_addr", "h")]


OBLIGATIONS = [
    Ob("C19.once", "once", cases=[{"kind": k} for k in ("sync", "gthread", "async")], timeout=1800,
       bound="12 application behaviours (incl. close() raising, HEAD, 304 with Content-Length) x Content-Length{none,0..3} x 2 chunks of 0..2 bytes x each worker class"),
    Ob("C19.once.twin", "once_twin", cases=[{"kind": "sync"}], expect="refute", timeout=300),
    Ob("C19.rejected", "rejected", cases=[{"kind": k} for k in ("sync", "gthread", "async")], timeout=600,
       bound="6 malformed / truncated heads x each worker class: no application call, at most one access record"),
    Ob("C19.keepalive_reject", "keepalive_reject", timeout=600,
       bound="gthread / async-base keep-alive connection: one served request followed by one of 6 malformed / truncated heads"),
    Ob("C19.line", "line", cases={"quick": [{"source": s, "atom": a, "n": 2} for s, a in _LINE],
                                  "thorough": [{"source": s, "atom": a, "n": 3} for s, a in _LINE]},
       timeout={"quick": 900, "thorough": 3000},
       bound="each client-influenced source carrying 2 (thorough 3) arbitrary unicode characters, rendered through its atom"),
    Ob("C19.auth_values", "auth_values", timeout=300,
       bound="18 Authorization header values (one token, several tokens, other schemes, broken base64, empty user)"),
    Ob("C19.line.twin", "line_twin", cases=[{"source": "referer", "atom": "f", "n": 2}], expect="refute", timeout=120),
    Ob("C19.line_user", "line_user", cases={"quick": [{"n": 2}], "thorough": [{"n": 3}]}, timeout=900,
       bound="basic-auth user of 2 (thorough 3) characters from {a : LF CR \" e-acute NUL backslash % U+2028} through the real "
             "base64 decoding, rendered in the default combined format"),
    Ob("C19.atoms", "line", cases=[{"source": "referer", "atom": a, "n": 1} for a in ATOMS], timeout=600,
       bound="every documented atom rendered (one arbitrary character in the Referer header)"),
]

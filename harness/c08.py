"""C08 - only trusted peers can set scheme, script name or client address; header mapping is unambiguous.

  1 inject    two symbolic header names through the real parse_headers + wsgi.create: names that differ
              case-insensitively never share an environ variable under header_map drop / refuse
  2 gate      secure-scheme header with a symbolic value, SCRIPT_NAME forwarder header, conflicting scheme headers x
              peer {listed, unlisted, unix} x forwarded_allow_ips {none, that ip, *}: wsgi.url_scheme / SCRIPT_NAME /
              PATH_INFO move only for an allowed peer
  3 proxy     PROXY line fields x proxy_allow_ips x peer: REMOTE_ADDR changes only when allowed and the line is valid
  4 persist   two requests on one keep-alive connection through the real gthread / async-base handle(): the second
              request still sees the PROXY-declared client address
"""
from types import SimpleNamespace

from engine.harness_api import Ob, setup, pick
setup(shim=True)

from gunicorn.http import wsgi  # noqa: E402
from gunicorn.http.errors import (ForbiddenProxyRequest, InvalidHeader, InvalidHeaderName, InvalidProxyLine,  # noqa: E402
                                  InvalidSchemeHeaders, LimitRequestHeaders, ObsoleteFolding, ConfigurationProblem)
from gunicorn.http.body import Body, LengthReader  # noqa: E402
from gunicorn.http.unreader import IterUnreader  # noqa: E402
from engine.stubs import workers as W  # noqa: E402
from engine.stubs.recsock import RecSock  # noqa: E402
from harness.c01 import mk_req, CFG  # noqa: E402

W.install_clock()

PROPERTY = "C08"
USES_SHIM = True
CASE = {}
KERNELS = ["gunicorn.http.message:Message.parse_headers", "gunicorn.http.message:Request.proxy_protocol",
           "gunicorn.http.message:Request.proxy_protocol_access_check", "gunicorn.http.message:Request.parse_proxy_protocol",
           "gunicorn.http.wsgi:create", "gunicorn.http.wsgi:proxy_environ", "gunicorn.http.wsgi:default_environ",
           "gunicorn.workers.gthread:ThreadWorker.handle", "gunicorn.workers.base_async:AsyncWorker.handle"]
STUBS = ["io.BytesIO -> PyBytesIO (symbolic runs)", "sockets -> RecSock", "cfg -> attribute namespace with the "
         "parser-relevant settings (obligations 1-3) / real Config (obligation 4)"]
ASSUMPTIONS = ["header_map in {drop, refuse} (dangerous is documented-unsafe)", "peer addresses from a small concrete set; "
               "PROXY addresses from a concrete set incl. invalid ones (inet_pton is C code)"]
OUTSIDE = ["IPv6 textual variants", "header names longer than 2 symbolic characters"]

PARSE_ERRORS = (InvalidHeader, InvalidHeaderName, ObsoleteFolding, LimitRequestHeaders, InvalidSchemeHeaders)


def env_of(r, cfg, peer):
    r.method, r.uri, r.path, r.query, r.fragment = "GET", "/app/x", "/app/x", "", ""
    r.version = (1, 1)
    r.body = Body(LengthReader(IterUnreader([]), 0))
    client = peer if isinstance(peer, tuple) else "unix-peer"
    resp, environ = wsgi.create(r, RecSock(), client, ("127.0.0.1", 8000), cfg)
    return environ


# ---- 1. injectivity --------------------------------------------------------------------------------------------
NCH = ["a", "A", "-", "_", "b", "1"]
# second alphabet: the token characters an environ-key mapping could fold onto '_' besides '-'
NCH2 = ["a", "-", "_", ".", "!", "~"]


def _name(i, j, n):
    alpha = NCH2 if CASE.get("alpha") == 2 else NCH
    return alpha[i] + (alpha[j] if n == 2 else "")


def inject(i1: int, j1: int, i2: int, j2: int) -> bool:
    """
    pre: 0 <= i1 <= 5 and 0 <= j1 <= 5 and 0 <= i2 <= 5 and 0 <= j2 <= 5
    post: __return__
    """
    n1 = _name(pick(i1, 0, 5), pick(j1, 0, 5), CASE["n1"])
    n2 = _name(pick(i2, 0, 5), pick(j2, 0, 5), CASE["n2"])
    kw = {}
    if CASE.get("trusted"):
        # every peer is a trusted forwarder and two names of the alphabet, spelled with '_', are configured scheme headers:
        # being named in the configuration must not let the '_' spelling past the drop / refuse policy (it would alias 'A-')
        kw = dict(forwarded_allow_ips=["*"], secure_scheme_headers={"A_": "https", "_B": "on"})
    cfg = CFG(header_map=CASE["header_map"], workers=1, errorlog="-", **kw)
    r = mk_req(cfg=cfg)
    data = n1.encode("latin-1") + b":a\r\n" + n2.encode("latin-1") + b":b"
    try:
        r.headers = r.parse_headers(data)
    except PARSE_ERRORS:
        return True
    hs = r.headers
    if len(hs) != 2:
        return True
    if hs[0][0] == hs[1][0]:
        return n1.upper() == n2.upper()   # same field name (case-insensitively): combining is the documented behaviour
    environ = env_of(r, cfg, ("10.0.0.1", 1))
    # the two names must have produced two distinct variables, each with its own value
    vals = [v for k, v in environ.items() if k.startswith("HTTP_") and v in ("a", "b")]
    merged = [v for k, v in environ.items() if k.startswith("HTTP_") and v in ("a,b", "b,a")]
    if merged:
        return False
    return len(vals) == 2


def inject_sym(n1: str, n2: str) -> bool:
    """
    pre: len(n1) == CASE["n1"] and len(n2) == CASE["n2"]
    post: __return__
    """
    # symbolic names through the real parse_headers only (wsgi.create hashes the names, see inject): names that survive
    # under drop / refuse never contain an underscore, so the '-' -> '_' mapping of wsgi.create cannot merge two of them
    cfg = CFG(header_map=CASE["header_map"], workers=1, errorlog="-")
    r = mk_req(cfg=cfg)
    for ch in n1 + n2:
        if ord(ch) > 255:
            return True
    data = n1.encode("latin-1") + b":a\r\n" + n2.encode("latin-1") + b":b"
    try:
        hs = r.parse_headers(data)
    except PARSE_ERRORS:
        return True
    for name, _ in hs:
        for ch in name:
            if ch == "_":
                return False
    return True


def inject_twin(i1: int, j1: int, i2: int, j2: int) -> bool:
    """
    pre: 0 <= i1 <= 5 and 0 <= j1 <= 5 and 0 <= i2 <= 5 and 0 <= j2 <= 5
    post: __return__
    """
    n1 = _name(pick(i1, 0, 5), pick(j1, 0, 5), CASE["n1"])
    n2 = _name(pick(i2, 0, 5), pick(j2, 0, 5), CASE["n2"])
    cfg = CFG(header_map=CASE["header_map"], workers=1, errorlog="-")
    r = mk_req(cfg=cfg)
    try:
        hs = r.parse_headers(n1.encode() + b":a\r\n" + n2.encode() + b":b")
    except PARSE_ERRORS:
        return True
    return not (len(hs) == 2 and hs[0][0] != hs[1][0] and "-" in hs[0][0])


# ---- 2. allow-list gate ------------------------------------------------------------------------------------------
PEERS = [("127.0.0.1", 5), ("10.0.0.1", 5), None, ("::1", 5, 0, 0), ("fe80::2", 5, 0, 3)]
SN = ["Script_Name", "Script-Name", "SCRIPT-NAME", "script_name", "X-Script-Name", "Path-Info", "PATH_INFO"]
ALLOW = [[], ["127.0.0.1"], ["*"], ["::1"]]


def gate(pi: int, ai: int, p1: str, p2: str, second: int) -> bool:
    """
    pre: 0 <= pi <= 4 and 0 <= ai <= 3 and 0 <= second <= 2
    pre: len(p1) <= CASE["pad"] and len(p2) <= CASE["pad"]
    pre: all(ord(c) < 256 and ord(c) not in (0, 10, 13) for c in p1 + p2)
    post: __return__
    """
    if CASE.get("fixed_peer") is not None:
        pi, ai = CASE["fixed_peer"]
    pi, ai, second = pick(pi, 0, 4), pick(ai, 0, 3), pick(second, 0, 2)
    peer, allow = PEERS[pi], ALLOW[ai]
    trusted = ("*" in allow) or (peer is None) or (peer[0] in allow)
    cfg = CFG(header_map=CASE["header_map"], forwarded_allow_ips=allow, workers=1, errorlog="-",
              secure_scheme_headers={"X-FORWARDED-PROTOCOL": "ssl", "X-FORWARDED-PROTO": "https", "X-FORWARDED-SSL": "on"},
              forwarder_headers=["SCRIPT_NAME", "PATH_INFO"])
    r = mk_req(cfg=cfg)
    r.peer_addr = peer
    if CASE["pad"] == 0:
        p1 = p2 = ""                      # keep the whole header block concrete: the allow-list matrix is the subject here
    value = p1 + CASE["core"] + p2
    data = b"X-Forwarded-Proto: " + value.encode("latin-1") + b"\r\nScript_Name: /app"
    if second == 1:
        data = data + b"\r\nX-Forwarded-Ssl: on"
    elif second == 2:
        data = data + b"\r\nX-Forwarded-Ssl: off"
    try:
        r.headers = r.parse_headers(data)
    except InvalidSchemeHeaders:
        # only a trusted peer's scheme headers are looked at, and only a real conflict is refused
        lo, hi = 0, len(value)
        while lo < hi and value[lo] in " \t":
            lo += 1
        while hi > lo and value[hi - 1] in " \t":
            hi -= 1
        first_secure = value[lo:hi] == "https"
        return trusted and second != 0 and first_secure != (second == 1)
    except InvalidHeaderName:
        # SCRIPT_NAME has an underscore: refused for an untrusted peer under header_map=refuse
        return (not trusted) and CASE["header_map"] == "refuse"
    except (InvalidHeader, ObsoleteFolding, LimitRequestHeaders):
        return False
    try:
        environ = env_of(r, cfg, peer if peer else "unix")
    except ConfigurationProblem:
        return False
    lo, hi = 0, len(value)
    while lo < hi and value[lo] in " \t":
        lo += 1
    while hi > lo and value[hi - 1] in " \t":
        hi -= 1
    want_https = trusted and value[lo:hi] == "https"
    if environ["wsgi.url_scheme"] != ("https" if want_https else "http"):
        return False
    if trusted:
        return environ["SCRIPT_NAME"] == "/app" and environ["PATH_INFO"] == "/x"
    return environ["SCRIPT_NAME"] == "" and environ["PATH_INFO"] == "/app/x" and "HTTP_SCRIPT_NAME" not in environ


def gate_twin(pi: int, ai: int, p1: str, p2: str, second: int) -> bool:
    """
    pre: 0 <= pi <= 4 and 0 <= ai <= 3 and 0 <= second <= 2
    pre: len(p1) <= CASE["pad"] and len(p2) <= CASE["pad"]
    pre: all(ord(c) < 256 and ord(c) not in (0, 10, 13) for c in p1 + p2)
    post: __return__
    """
    if not (pi == 0 and ai == 1 and second == 0 and len(p1) == 0 and len(p2) == 0 and CASE["core"] == "https"):
        return True
    cfg = CFG(header_map=CASE["header_map"], forwarded_allow_ips=["127.0.0.1"], workers=1, errorlog="-",
              secure_scheme_headers={"X-FORWARDED-PROTO": "https"}, forwarder_headers=["SCRIPT_NAME"])
    r = mk_req(cfg=cfg)
    r.peer_addr = PEERS[0]
    r.headers = r.parse_headers(b"X-Forwarded-Proto: https\r\nScript_Name: /app")
    environ = env_of(r, cfg, PEERS[0])
    return not (environ["wsgi.url_scheme"] == "https" and environ["SCRIPT_NAME"] == "/app")


def forwarder_spelling(pi: int, ai: int, si: int, star: bool) -> bool:
    """
    pre: 0 <= pi <= 4 and 0 <= ai <= 3 and 0 <= si <= 6
    post: __return__
    """
    pi, ai, si = pick(pi, 0, 4), pick(ai, 0, 3), pick(si, 0, 6)
    peer, allow = PEERS[pi], ALLOW[ai]
    trusted = ("*" in allow) or (peer is None) or (peer[0] in allow)
    fw = ["*"] if star else ["SCRIPT_NAME", "PATH_INFO"]
    cfg = CFG(header_map=CASE["header_map"], forwarded_allow_ips=allow, workers=1, errorlog="-", forwarder_headers=fw)
    r = mk_req(cfg=cfg)
    r.peer_addr = peer
    name = SN[si]
    try:
        r.headers = r.parse_headers(name.encode() + b": /app")
    except InvalidHeaderName:
        return "_" in name and not trusted and CASE["header_map"] == "refuse"
    except PARSE_ERRORS:
        return False
    try:
        environ = env_of(r, cfg, peer if peer else "unix")
    except ConfigurationProblem:
        return False
    moved = environ["SCRIPT_NAME"] != "" or environ["PATH_INFO"] != "/app/x"
    # only the exact forwarder header name SCRIPT_NAME (underscore spelling, any case) from an allowed peer may move it
    may_move = trusted and name.upper() == "SCRIPT_NAME"
    if moved and not may_move:
        return False
    if may_move and not (environ["SCRIPT_NAME"] == "/app" and environ["PATH_INFO"] == "/x"):
        return False
    return True


# ---- 3. PROXY line --------------------------------------------------------------------------------------------------
PROTO = ["TCP4", "TCP6", "UNKNOWN", "tcp4"]
ADDR = ["1.2.3.4", "::1", "999.1.1.1", "x", "1.2.3.4 ", ""]
PORT = ["0", "65535", "65536", "-1", "x", "", "80"]
PALLOW = [["127.0.0.1"], ["*"], [], ["::1"]]


def proxy(pi: int, ai: int, pr: int, a1: int, a2: int, s1: int, s2: int, enabled: bool, reqno: int) -> bool:
    """
    pre: 0 <= pi <= 4 and 0 <= ai <= 3 and 0 <= pr <= 3 and 0 <= a1 <= 5 and 0 <= a2 <= 5 and 0 <= s1 <= 6 and 0 <= s2 <= 6
    pre: 1 <= reqno <= 2
    pre: CASE["part"] == "gate" or (pi <= 1 and a2 <= 1 and s2 <= 2 and ai == 0 and enabled and reqno == 1)
    pre: CASE["part"] == "line" or (a1 == 0 and a2 == 0 and s1 == 0 and s2 == 0)
    post: __return__
    """
    if CASE["part"] == "gate":
        # the allow-list matrix, with one valid and two invalid lines
        pr, a1, a2, s1, s2 = [(0, 0, 0, 6, 6), (1, 1, 1, 0, 1), (0, 2, 0, 6, 6), (2, 0, 0, 6, 6)][pick(pr, 0, 3)]
    else:
        # every line spelling, from an allowed peer and an unlisted one
        pi, ai = [(0, 0), (1, 0)][pick(pi, 0, 1)]
        a2 = [a1, 3][pick(a2, 0, 1)]
        s2 = [6, 2, 4][pick(s2, 0, 2)]
        enabled, reqno = True, 1
    pi, ai, pr, a1, a2, s1, s2 = (pick(pi, 0, 4), pick(ai, 0, 3), pick(pr, 0, 3), pick(a1, 0, 5), pick(a2, 0, 5),
                                  pick(s1, 0, 6), pick(s2, 0, 6))
    reqno = pick(reqno, 1, 2)
    enabled = True if enabled else False
    peer, allow = PEERS[pi], PALLOW[ai]
    cfg = CFG(proxy_protocol=enabled, proxy_allow_ips=allow, workers=1, errorlog="-")
    r = mk_req(cfg=cfg)
    r.peer_addr = peer
    r.req_number = reqno
    line = "PROXY %s %s %s %s %s" % (PROTO[pr], ADDR[a1], ADDR[a2], PORT[s1], PORT[s2])
    allowed = ("*" in allow) or (peer is None) or (peer[0] in allow)
    fam_ok = (pr == 0 and a1 == 0 and a2 == 0) or (pr == 1 and a1 == 1 and a2 == 1)
    ports_ok = s1 in (0, 1, 6) and s2 in (0, 1, 6)
    try:
        is_proxy = r.proxy_protocol(line)
    except ForbiddenProxyRequest:
        return enabled and reqno == 1 and not allowed
    except InvalidProxyLine:
        return enabled and reqno == 1 and allowed and not (fam_ok and ports_ok)
    if not is_proxy:
        return (not enabled or reqno != 1) and r.proxy_protocol_info is None
    if not (enabled and reqno == 1 and allowed and fam_ok and ports_ok):
        return False
    environ = env_of(r, cfg, peer if peer else "unix")
    return environ["REMOTE_ADDR"] == ADDR[a1] and environ["REMOTE_PORT"] == PORT[s1]


def proxy_twin(pi: int, ai: int, pr: int, a1: int, a2: int, s1: int, s2: int, enabled: bool, reqno: int) -> bool:
    """
    pre: 0 <= pi <= 4 and 0 <= ai <= 3 and 0 <= pr <= 3 and 0 <= a1 <= 5 and 0 <= a2 <= 5 and 0 <= s1 <= 6 and 0 <= s2 <= 6
    pre: 1 <= reqno <= 2
    pre: CASE["part"] == "gate" or (pi <= 1 and a2 <= 1 and s2 <= 2 and ai == 0 and enabled and reqno == 1)
    pre: CASE["part"] == "line" or (a1 == 0 and a2 == 0 and s1 == 0 and s2 == 0)
    post: __return__
    """
    # witness: some combination makes the PROXY line take effect (so that "never honoured" would not pass)
    if not proxy(pi, ai, pr, a1, a2, s1, s2, enabled, reqno):
        return True
    if CASE["part"] == "gate":
        return not (enabled and reqno == 1 and pr == 0 and pi == 0 and ai == 0)
    return not (pi == 0 and pr == 0 and a1 == 0 and a2 == 0 and s1 == 6 and s2 == 0)


# ---- 3b. a PROXY line must not buy trust for forwarded headers ------------------------------------------------------------
from gunicorn.http.parser import RequestParser  # noqa: E402
SRC = ["127.0.0.1", "203.0.113.7", "10.0.0.1"]


def proxy_then_forwarded(pi: int, fai: int, pai: int, si: int) -> bool:
    """
    pre: 0 <= pi <= 1 and 0 <= fai <= 2 and 0 <= pai <= 2 and 0 <= si <= 2
    post: __return__
    """
    # the whole head through the real RequestParser: PROXY line naming a client address + scheme / SCRIPT_NAME headers.
    # Whether those headers are believed depends on the CONNECTION's peer and forwarded_allow_ips only - never on the
    # address the PROXY line declares (anyone allowed to send a PROXY line could otherwise name a trusted address).
    pi, fai, pai, si = pick(pi, 0, 1), pick(fai, 0, 2), pick(pai, 0, 2), pick(si, 0, 2)
    peer = PEERS[pi]
    fallow = [[], ["127.0.0.1"], ["*"]][fai]
    pallow = [["127.0.0.1"], ["10.0.0.1"], ["*"]][pai]
    cfg = CFG(header_map=CASE["header_map"], forwarded_allow_ips=fallow, proxy_protocol=True, proxy_allow_ips=pallow,
              secure_scheme_headers={"X-FORWARDED-PROTO": "https"}, forwarder_headers=["SCRIPT_NAME"], workers=1, errorlog="-")
    data = ("PROXY TCP4 %s 10.9.9.9 4242 80\r\nGET /app/x HTTP/1.1\r\nHost: h\r\nX-Forwarded-Proto: https\r\n"
            "Script_Name: /app\r\n\r\n" % SRC[si]).encode()
    try:
        req = next(RequestParser(cfg, iter([data]), peer))
    except (ForbiddenProxyRequest, InvalidProxyLine, InvalidHeaderName):
        return True
    resp, environ = wsgi.create(req, RecSock(), peer, ("127.0.0.1", 8000), cfg)
    trusted = ("*" in fallow) or (peer[0] in fallow)
    if environ["wsgi.url_scheme"] != ("https" if trusted else "http"):
        return False
    if (environ["SCRIPT_NAME"] == "/app") != trusted:
        return False
    return environ["REMOTE_ADDR"] == SRC[si]


# ---- 4. persistence across keep-alive ----------------------------------------------------------------------------------
def persist(nreq: int, second_has_host: bool) -> bool:
    """
    pre: 1 <= nreq <= 3
    post: __return__
    """
    nreq = pick(nreq, 1, 3)
    kind = CASE["kind"]
    seen = []

    def app(environ, start_response):
        seen.append((environ["REMOTE_ADDR"], environ.get("REMOTE_PORT"), environ["RAW_URI"]))
        start_response("200 OK", [("Content-Length", "2")])
        return [b"ok"]
    cfg = W.make_cfg(keepalive=2, proxy_protocol=True, proxy_allow_ips="*")
    w = (W.thread_worker if kind == "gthread" else W.async_worker)(cfg, app)
    script = [b"PROXY TCP4 203.0.113.7 10.0.0.2 4242 80\r\nGET /r1 HTTP/1.1\r\nHost: h\r\n\r\n"]
    for i in range(2, nreq + 1):
        script.append(("GET /r%d HTTP/1.1\r\n%s\r\n" % (i, "Host: h\r\n" if second_has_host else "")).encode())
    c = RecSock(script)
    if kind == "gthread":
        W.gthread_serve(w, c, addr=("10.0.0.9", 5555), max_dispatch=6)
    else:
        W.run_connection(kind, w, c, addr=("10.0.0.9", 5555))
    if len(seen) != nreq:
        return False
    for addr, port, uri in seen:
        if addr != "203.0.113.7" or port != "4242":
            return False
    return True


def persist_twin(nreq: int, second_has_host: bool) -> bool:
    """
    pre: 1 <= nreq <= 3
    post: __return__
    """
    return not (nreq == 3 and second_has_host)


_PEER_ALLOW = [(pi, ai) for pi in range(5) for ai in range(4)]

OBLIGATIONS = [
    Ob("C08.inject", "inject",
       cases={"quick": [{"header_map": hm, "n1": a, "n2": b} for hm in ("drop", "refuse") for a, b in ((1, 1), (1, 2), (2, 2))] +
                       [{"header_map": "drop", "n1": 2, "n2": 2, "alpha": 2}] +
                       [{"header_map": hm, "n1": 2, "n2": 2, "trusted": True} for hm in ("drop", "refuse")],
              "thorough": [{"header_map": hm, "n1": a, "n2": b} for hm in ("drop", "refuse") for a, b in ((1, 1), (1, 2), (2, 1), (2, 2))] +
                          [{"header_map": hm, "n1": 2, "n2": 2, "alpha": 2} for hm in ("drop", "refuse")] +
                          [{"header_map": hm, "n1": 2, "n2": 2, "trusted": True} for hm in ("drop", "refuse")]},
       timeout={"quick": 900, "thorough": 3000},
       bound="two header names of 1..2 characters chosen from {a, A, -, _, b, 1} (and, 2 characters each, from {a, -, _, ., !, ~}) "
             "through the real parse_headers + wsgi.create; also with every peer trusted and the names 'A_' and '_B' configured as "
             "secure_scheme_headers"),
    Ob("C08.inject_sym", "inject_sym",
       cases={"quick": [{"header_map": hm, "n1": 1, "n2": 1} for hm in ("drop", "refuse")] + [{"header_map": "drop", "n1": 2, "n2": 1}],
              "thorough": [{"header_map": hm, "n1": a, "n2": b} for hm in ("drop", "refuse") for a, b in ((1, 1), (2, 1), (2, 2))]},
       timeout={"quick": 900, "thorough": 3000},
       bound="two header names of 1 (thorough 2) arbitrary latin-1 characters: no name containing '_' survives parse_headers"),
    Ob("C08.inject.twin", "inject_twin", cases=[{"header_map": "drop", "n1": 2, "n2": 2}], expect="refute", timeout=300),
    Ob("C08.gate", "gate",
       cases={"quick": [{"header_map": hm, "core": c, "pad": 0} for hm in ("drop", "refuse") for c in ("https", "http")] +
                       [{"header_map": "drop", "core": c, "pad": 1, "fixed_peer": fp} for c in ("https", "http") for fp in ([0, 1], [1, 0])],
              "thorough": [{"header_map": hm, "core": c, "pad": 0} for hm in ("drop", "refuse") for c in ("https", "http", "HTTPS", "on", "")] +
                          [{"header_map": hm, "core": c, "pad": 1, "fixed_peer": list(fp)} for hm in ("drop", "refuse")
                           for c in ("https", "http") for fp in ((0, 1), (1, 0), (2, 0), (3, 3), (4, 3))]},
       timeout=900,
       bound="full matrix peer {127.0.0.1, 10.0.0.1, unix, ::1 and fe80::2 as 4-tuples} x forwarded_allow_ips {[], [127.0.0.1], [*], [::1]} x "
             "second scheme header {absent, agreeing, conflicting} x SCRIPT_NAME forwarder header with the exact values; and for fixed "
             "trusted / untrusted peers X-Forwarded-Proto = pad+core+pad with pads <=1 arbitrary latin-1 characters"),
    Ob("C08.forwarder_spelling", "forwarder_spelling", cases=[{"header_map": hm} for hm in ("drop", "refuse")], timeout=900,
       bound="7 spellings of the SCRIPT_NAME / PATH_INFO forwarder headers (underscore, hyphen, case, prefixed) x 5 peers "
             "(IPv4 listed/unlisted, unix, IPv6 4-tuples) x 4 allow lists x forwarder_headers {named, *}"),
    Ob("C08.gate.twin", "gate_twin", cases=[{"header_map": "drop", "core": "https", "pad": 0}], expect="refute", timeout=120),
    Ob("C08.proxy", "proxy", cases=[{"part": "gate"}, {"part": "line"}], timeout=1200,
       bound="gate: 5 peers x 4 proxy_allow_ips x proxy_protocol on/off x request number 1|2 x {valid TCP4, valid TCP6, bad address, "
             "unknown proto}; line: proto{TCP4,TCP6,UNKNOWN,tcp4} x source address from 6 spellings x destination {same, 'x'} x source "
             "port from 7 spellings x destination port from 3, from a listed and an unlisted peer"),
    Ob("C08.proxy_then_forwarded", "proxy_then_forwarded", cases=[{"header_map": "drop"}, {"header_map": "refuse"}], timeout=900,
       bound="real RequestParser on a PROXY line + secure-scheme + SCRIPT_NAME headers: peer {127.0.0.1, 10.0.0.1} x "
             "forwarded_allow_ips {[], [127.0.0.1], [*]} x proxy_allow_ips {[127.0.0.1], [10.0.0.1], [*]} x declared source address "
             "{127.0.0.1, 203.0.113.7, 10.0.0.1}"),
    Ob("C08.proxy.twin", "proxy_twin", cases=[{"part": "gate"}, {"part": "line"}], expect="refute", timeout=300),
    Ob("C08.persist", "persist", cases=[{"kind": "gthread"}, {"kind": "async"}], timeout=600,
       bound="1..3 requests on one keep-alive connection after a PROXY line, real handle() of gthread and async-base"),
    Ob("C08.persist.twin", "persist_twin", cases=[{"kind": "gthread"}], expect="refute", timeout=60),
]

"""C07 - wsgi.input yields exactly the request body, and never the next request.

  1 program   every program of <=2 (thorough 3) calls over read/readline/readlines/next with symbolic sizes on a
              body with symbolic content, through Body over LengthReader (body cut into 2 network reads at a symbolic
              position) and Body over ChunkedReader.read (chunk pieces supplied directly; chunk syntax itself is C01/C06),
              compared call by call with a binary-file model; then end-of-file forever
  2 block     concrete 1023..1026-byte bodies, sizes around the 1024-byte refill (arithmetic on sizes, content concrete)
  3 next_req  after a chunked request consumed partially, Parser.__next__'s drain leaves exactly the bytes after the
              terminating chunk for the next request (Content-Length variant: C01.boundary)
"""
from typing import List

from engine.harness_api import Ob, setup, pick
setup(shim=True)

from gunicorn.http.body import Body, ChunkedReader, LengthReader  # noqa: E402
from gunicorn.http.unreader import IterUnreader  # noqa: E402
from harness.c01 import mk_req  # noqa: E402
from engine.stubs import workers as _W  # noqa: E402

_W.install_clock()
from oracles.bytesio_model import FileModel  # noqa: E402

PROPERTY = "C07"
USES_SHIM = True
CASE = {}
KERNELS = ["gunicorn.http.body:Body.read", "gunicorn.http.body:Body.readline", "gunicorn.http.body:Body.readlines",
           "gunicorn.http.body:Body.__next__", "gunicorn.http.body:Body.getsize", "gunicorn.http.body:LengthReader.read",
           "gunicorn.http.body:ChunkedReader.read", "gunicorn.http.body:ChunkedReader.parse_chunked",
           "gunicorn.http.unreader:Unreader.read", "gunicorn.http.unreader:Unreader.unread"]
STUBS = ["io.BytesIO -> PyBytesIO (symbolic runs only)", "network -> IterUnreader",
         "program obligation, chunked framing: ChunkedReader.parser is an iterator over the decoded chunk pieces"]
ASSUMPTIONS = ["readlines(hint) may ignore its hint (PEP 3333)", "sizes are ints or None"]
OUTSIDE = ["bodies with more symbolic bytes than the bound; programs longer than 3 calls"]

OPS = ["read", "readline", "readlines", "next"]


def mk_body(data, cut):
    if CASE["framing"] == "length":
        chunks = [c for c in (data[:cut], data[cut:]) if len(c)]
        return Body(LengthReader(IterUnreader(chunks), len(data)))
    cr = object.__new__(ChunkedReader)
    cr.req = None
    cr.parser = iter([c for c in (data[:cut], data[cut:]) if len(c)])
    from engine.shim import PyBytesIO
    import io
    from engine.harness_api import SYMBOLIC
    cr.buf = PyBytesIO() if SYMBOLIC else io.BytesIO()
    return Body(cr)


def call(obj, model, op, size):
    """-> (implementation result, model result)"""
    arg = None if size == -2 else size
    if op == "read":
        return obj.read(arg), model.read(arg)
    if op == "readline":
        return obj.readline(arg), model.readline(arg)
    if op == "readlines":
        return obj.readlines(arg), model.readlines(arg)
    try:
        got = next(obj)
    except StopIteration:
        got = None
    return got, model.next()


def program(data: bytes, cut: int, s1: int, s2: int, s3: int) -> bool:
    """
    pre: len(data) == CASE["n"]
    pre: 0 <= cut <= len(data)
    pre: -2 <= s1 <= len(data) + 1 and -2 <= s2 <= len(data) + 1 and -2 <= s3 <= len(data) + 1
    post: __return__
    """
    n = CASE["n"]
    cut = pick(cut, 0, n)
    ops = CASE["ops"]
    sizes = [pick(s, -2, n + 1) for s in (s1, s2, s3)[:len(ops)]]
    body = mk_body(data, cut)
    model = FileModel(data)
    for i in range(len(ops)):
        got, want = call(body, model, ops[i], sizes[i])
        if got != want:
            return False
    # the rest of the body, then end-of-file forever
    if body.read() != model.read():
        return False
    return body.read(1) == b"" and body.readline() == b"" and body.read() == b"" and body.readlines() == []


def program_twin(data: bytes, cut: int, s1: int, s2: int, s3: int) -> bool:
    """
    pre: len(data) == CASE["n"]
    pre: 0 <= cut <= len(data)
    pre: -2 <= s1 <= len(data) + 1 and -2 <= s2 <= len(data) + 1 and -2 <= s3 <= len(data) + 1
    post: __return__
    """
    # witness: a readline that stops at a newline strictly inside the body, across the network cut
    if not (len(data) >= 3 and data[1] == 10 and cut == 1 and s1 == -2):
        return True
    body = mk_body(data, cut)
    return body.readline() != data[:2]


# ---- 2. around the 1024-byte refill block -------------------------------------------------------------------------
WIN = [0, 1, 2, 1022, 1023, 1024, 1025, 1026, 1027, 5000, -1]


def block(i1: int, i2: int, ci: int) -> bool:
    """
    pre: 0 <= i1 <= 10 and 0 <= i2 <= 10 and 0 <= ci <= 3
    post: __return__
    """
    L = CASE["len"]
    i1 = pick(i1, 0, 10)
    i2 = pick(i2, 0, 10)
    cut = [0, 1, 1024, L - 1][pick(ci, 0, 3)]
    data = bytes((b"abcdefg\n"[i % 8] if (i % 700) else 10) for i in range(L))
    chunks = [c for c in (data[:cut], data[cut:]) if len(c)]
    body = Body(LengthReader(IterUnreader(chunks), L))
    model = FileModel(data)
    ops = CASE["ops"]
    for k, idx in enumerate((i1, i2)):
        got, want = call(body, model, ops[k], WIN[idx])
        if got != want:
            return False
    return body.read() == model.read() and body.read(1) == b""


# ---- 3. next request offset after a partially consumed chunked body -----------------------------------------------
def next_req(k: int, tail: bytes, cut: int) -> bool:
    """
    pre: 0 <= k <= 4
    pre: len(tail) <= CASE["tail"]
    pre: 0 <= cut <= 25 + len(tail)
    post: __return__
    """
    k = pick(k, 0, 4)
    trailer = b"T: v\r\n" if CASE.get("trailers") else b""
    stream = b"2\r\nab\r\n1\r\nc\r\n0\r\n" + trailer + b"\r\n" + tail
    cut = pick(cut, 0, 19 + len(trailer) + CASE["tail"])
    chunks = [c for c in (stream[:cut], stream[cut:]) if len(c)]
    u = IterUnreader(chunks)
    r = mk_req([("TRANSFER-ENCODING", "chunked")], (1, 1))
    r.unreader = u
    r.set_body_reader()
    got = r.body.read(k)
    if got != b"abc"[:k]:
        return False
    data = r.body.read(8192)           # Parser.__next__ discards the unread body like this
    while data:
        data = r.body.read(8192)
    rest = b""
    d = u.read()
    while d:
        rest = rest + d
        d = u.read()
    return rest == tail


# ---- 4. the real RequestParser over two pipelined requests, first body large / partially consumed ---------------------
from gunicorn.http.parser import RequestParser  # noqa: E402
from harness.c01 import CFG  # noqa: E402

SIZES = [0, 5, 1024, 8192, 65536, 65537, 70000, 200000]


def pipeline(si: int, ki: int, chunked: bool, seg: int) -> bool:
    """
    pre: 0 <= si < len(SIZES) and 0 <= ki <= 3 and 0 <= seg <= 2
    post: __return__
    """
    n = SIZES[pick(si, 0, len(SIZES) - 1)]
    ki, seg = pick(ki, 0, 3), pick(seg, 0, 2)
    unit = b"GET /smuggled HTTP/1.1\r\nHost: x\r\n\r\n"
    body = (unit * (n // len(unit) + 1))[:n]
    if chunked:
        enc = b""
        pos = 0
        while pos < n:
            piece = body[pos:pos + 30000]
            enc += ("%x\r\n" % len(piece)).encode() + piece + b"\r\n"
            pos += len(piece)
        enc += b"0\r\n\r\n"
        head = b"POST /first HTTP/1.1\r\nHost: h\r\nTransfer-Encoding: chunked\r\n\r\n"
    else:
        enc = body
        head = b"POST /first HTTP/1.1\r\nHost: h\r\nContent-Length: " + str(n).encode() + b"\r\n\r\n"
    stream = head + enc + b"GET /second HTTP/1.1\r\nHost: h\r\n\r\n"
    step = [len(stream), 8192, 1000][seg]
    chunks = [stream[i:i + step] for i in range(0, len(stream), step)]
    p = RequestParser(CFG(), iter(chunks), ("10.0.0.1", 1))
    r1 = next(p)
    k = [0, 3, n // 2, n][ki]
    got = r1.body.read(k) if k else b""
    if got != body[:k]:
        return False
    try:
        r2 = next(p)
    except StopIteration:
        return False
    if r2.uri != "/second" or r2.method != "GET":
        return False
    try:
        next(p)
    except StopIteration:
        return True
    except Exception:
        return False
    return False


# ---- 5. the same across a worker's keep-alive loop: gthread re-dispatches a connection through the poller ---------------------
def worker_next(kind_i: int, consumed: int, layout: int, blen: int) -> bool:
    """
    pre: 0 <= kind_i <= 1 and 0 <= consumed <= 2 and 0 <= layout <= 2 and 1 <= blen <= 3
    post: __return__
    """
    # request 1 carries a body of which the application reads nothing / one byte / everything; request 2 follows on the same
    # connection - in the same segment as the body (pipelined), in the segment after it, or with the body itself arriving in
    # a later segment than the head.  The application must see exactly [/one, /two]: request 2 is parsed from the first
    # byte after the body, whichever worker-side object (parser, unreader) lives across the two requests.
    from engine.stubs import workers as W
    from engine.stubs.recsock import RecSock
    kind = ["gthread", "async"][pick(kind_i, 0, 1)]
    consumed, layout, blen = pick(consumed, 0, 2), pick(layout, 0, 2), pick(blen, 1, 3)
    body = b"GET"[:blen]                                  # looks like the start of a request line if mis-parsed
    seen = []

    def app(environ, start_response):
        inp = environ["wsgi.input"]
        got = b"" if consumed == 0 else (inp.read(1) if consumed == 1 else inp.read())
        seen.append((environ["RAW_URI"], got))
        start_response("200 OK", [("Content-Length", "2")])
        return [b"ok"]
    head1 = ("POST /one HTTP/1.1\r\nHost: h\r\nContent-Length: %d\r\n\r\n" % blen).encode()
    req2 = b"GET /two HTTP/1.1\r\nHost: h\r\n\r\n"
    script = [[head1 + body + req2], [head1 + body, req2], [head1, body + req2]][layout]
    cfg = W.make_cfg(keepalive=2, threads=2, worker_connections=4)
    w = (W.thread_worker if kind == "gthread" else W.async_worker)(cfg, app)
    if kind == "gthread":
        w._keep.clear()
    c = RecSock(script)
    if kind == "gthread":
        W.gthread_serve(w, c, max_dispatch=6)
    else:
        W.run_connection(kind, w, c)
    want1 = b"" if consumed == 0 else (body[:1] if consumed == 1 else body)
    return seen == [("/one", want1), ("/two", b"")] and c.closed >= 1


def next_req_twin(k: int, tail: bytes, cut: int) -> bool:
    """
    pre: 0 <= k <= 4
    pre: len(tail) <= CASE["tail"]
    pre: 0 <= cut <= 14 + len(tail)
    post: __return__
    """
    return not (k == 1 and len(tail) == 2 and cut == 8)


def _prog_cases(tier):
    cs = []
    if tier == "quick":
        for fr in ("length", "chunked"):
            for o1 in OPS:
                for o2 in OPS:
                    cs.append({"framing": fr, "ops": [o1, o2], "n": 2})
            for o1 in ("read", "readline"):
                cs.append({"framing": fr, "ops": [o1], "n": 3})
    else:
        for fr in ("length", "chunked"):
            for o1 in OPS:
                for o2 in OPS:
                    cs.append({"framing": fr, "ops": [o1, o2], "n": 3})
                    for o3 in ("read", "readline"):
                        cs.append({"framing": fr, "ops": [o1, o2, o3], "n": 2})
            for o1 in OPS:
                cs.append({"framing": fr, "ops": [o1], "n": 4})
    return cs


OBLIGATIONS = [
    Ob("C07.program", "program", cases={"quick": _prog_cases("quick"), "thorough": _prog_cases("thorough")},
       timeout={"quick": 600, "thorough": 2400},
       bound="body of 2 (1-call programs: 3; thorough 3 / 4) arbitrary bytes; 2-call (thorough also 3-call) programs over "
             "{read,readline,readlines,next} with each size in {None,-1,0..len+1}; Content-Length framing with one network "
             "cut at any position, chunked framing with any 2-piece layout"),
    Ob("C07.program.twin", "program_twin", cases=[{"framing": "length", "ops": ["readline"], "n": 3}], expect="refute",
       timeout=120),
    Ob("C07.block", "block",
       cases=[{"len": L, "ops": [a, b]} for L in (1023, 1024, 1025, 1026) for a in ("read", "readline") for b in ("read", "readline")],
       timeout=900, bound="concrete bodies of 1023..1026 bytes, 2 calls of read/readline with sizes from {0,1,2,1022..1027,"
                          "5000,-1}, network cut at 0/1/1024/len-1"),
    Ob("C07.next_req", "next_req", cases={"quick": [{"tail": 2}, {"tail": 2, "trailers": True}],
                                          "thorough": [{"tail": 3}, {"tail": 3, "trailers": True}]}, timeout=900,
       bound="chunked body (2 chunks), with and without a trailer field, read k<=4 bytes, then drained; following bytes: <=2 "
             "(thorough 3) arbitrary; one cut anywhere"),
    Ob("C07.pipeline", "pipeline", timeout=1200,
       bound="real RequestParser: first request with a concrete body of {0,5,1024,8192,65536,65537,70000,200000} bytes "
             "(Content-Length or chunked), application reads {0,3,half,all}, stream fed whole / in 8192- / 1000-byte reads; "
             "the next request must be exactly the pipelined one"),
    Ob("C07.worker_next", "worker_next", timeout=600,
       bound="gthread and async-base keep-alive loops: POST with a 1..3 byte body of which the application reads 0 / 1 / all bytes, "
             "followed by a second request in the same segment, the next segment, or with the body split from its head"),
    Ob("C07.next_req.twin", "next_req_twin", cases=[{"tail": 2}], expect="refute", timeout=60),
]

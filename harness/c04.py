"""C04 - graceful shutdown completes in-flight requests and leaves nothing behind.

  1 master   real Arbiter.run() -> handle_term/int/quit -> halt() -> stop() -> kill_workers, sock.close_sockets,
             pidfile.unlink, sys.exit against the simulated kernel; worker reactions (exit delay / never) symbolic
  2 sync     real SyncWorker.run_for_one()/accept()/handle() with TERM (Worker.handle_exit) injected at a
             solver-chosen stub boundary (accept, recv, application, send, select)
  3 gthread  real ThreadWorker.run() with scripted selector and a deferred executor; TERM at a chosen boundary
gevent/eventlet loops: not applicable to this technique (C event loops, greenlet switching) - outside the claim.
"""
import errno
import signal
from types import SimpleNamespace
from typing import List

from engine.harness_api import Ob, setup, pick, ns
setup(shim=False)

import gunicorn.arbiter as A  # noqa: E402
import gunicorn.sock as GS  # noqa: E402
import gunicorn.workers.sync as S  # noqa: E402
import gunicorn.workers.gthread as G  # noqa: E402
from engine.stubs import kernel as KS  # noqa: E402
from engine.stubs import workers as W  # noqa: E402
from engine.stubs.recsock import RecSock  # noqa: E402
from oracles import http_response as hr  # noqa: E402
from harness.c03 import mk_arbiter  # noqa: E402

W.install_clock()

PROPERTY = "C04"
CASE = {}
KERNELS = ["gunicorn.arbiter:Arbiter.run", "gunicorn.arbiter:Arbiter.handle_term", "gunicorn.arbiter:Arbiter.handle_int",
           "gunicorn.arbiter:Arbiter.handle_quit", "gunicorn.arbiter:Arbiter.halt", "gunicorn.arbiter:Arbiter.stop",
           "gunicorn.arbiter:Arbiter.kill_workers", "gunicorn.arbiter:Arbiter.kill_worker",
           "gunicorn.arbiter:Arbiter.reap_workers", "gunicorn.sock:close_sockets",
           "gunicorn.workers.base:Worker.handle_exit", "gunicorn.workers.sync:SyncWorker.run_for_one",
           "gunicorn.workers.sync:SyncWorker.run_for_multiple", "gunicorn.workers.sync:SyncWorker.wait",
           "gunicorn.workers.sync:SyncWorker.accept", "gunicorn.workers.sync:SyncWorker.handle",
           "gunicorn.workers.sync:SyncWorker.handle_request", "gunicorn.workers.gthread:ThreadWorker.run",
           "gunicorn.workers.gthread:ThreadWorker.accept", "gunicorn.workers.gthread:ThreadWorker.enqueue_req",
           "gunicorn.workers.gthread:ThreadWorker.on_client_socket_readable",
           "gunicorn.workers.gthread:ThreadWorker.finish_request", "gunicorn.workers.gthread:ThreadWorker.handle"]
STUBS = ["simulated kernel (engine/stubs/kernel.py) for the master; listeners -> recording objects with a unix path or "
         "TCP tuple name; os.unlink inside gunicorn.sock recorded; pid file -> recording object (its own semantics: C17)",
         "sync worker: listener.accept()/client sockets -> RecSock scripts, select.select / os.getppid stubs; TERM = "
         "calling the real Worker.handle_exit at the chosen boundary",
         "gthread: scripted selector, deferred executor whose jobs complete inside futures.wait(timeout>0)"]
ASSUMPTIONS = ["a worker that received TERM/QUIT exits after a solver-chosen delay or never (stubborn)",
               "the application finishes (it is a plain function call in these harnesses)",
               "signal handlers run at stub (syscall) boundaries only"]
OUTSIDE = ["gevent / eventlet worker loops (not executable symbolically)", "real signal delivery, siginterrupt, real exit",
           ">3 workers, >2 connections"]


# ---- 1. master -------------------------------------------------------------------------------------------
class Lsn:
    def __init__(self, name):
        self.name = name
        self.closed = 0
        self.shut = 0

    def getsockname(self):
        return self.name

    def close(self):
        self.closed += 1

    def shutdown(self, how):
        self.shut += 1               # acts on the socket shared with every process that inherited it


class PidRec:
    def __init__(self):
        self.unlinked = 0

    def unlink(self):
        self.unlinked += 1


def master(sig: int, d: List[int], stub: List[bool], reexec: bool, child_of: bool) -> bool:
    """
    pre: sig == CASE["sig"] and reexec == CASE["reexec"] and child_of == CASE["child_of"]
    pre: len(d) == CASE["n"] and len(stub) == CASE["n"]
    pre: all(0 <= x <= 9 for x in d)
    post: __return__
    """
    n = CASE["n"]
    sig = CASE["sig"]
    reexec = CASE["reexec"]
    child_of = CASE["child_of"]
    gt = 0.5                    # graceful_timeout (s) -> 5 ds
    K = KS.Kernel(master_signals=[[int(signal.SIGTERM), int(signal.SIGINT), int(signal.SIGQUIT)][sig]], budget=3)
    K.stubborn = set(i for i in range(n) if stub[i])
    K.exit_after = {i: d[i] for i in range(n)}
    arb = mk_arbiter(K, n, timeout=CASE.get("wtimeout", 30))     # the heartbeat timeout must play no role in shutdown
    arb.cfg.graceful_timeout = gt
    arb.cfg.reuse_port = False
    lsn = [Lsn("/run/g.sock"), Lsn(("127.0.0.1", 8000))]
    arb.LISTENERS = list(lsn)
    arb.pidfile = PidRec()
    pidrec = arb.pidfile
    arb.reexec_pid = 77 if reexec else 0
    arb.master_pid = 55 if child_of else 0
    K.ppid = 55 if child_of else 0       # the old master is still alive: no promotion in this harness
    unlinked = []
    undo = KS.install(A, K)
    saved_os = GS.os
    GS.os = ns("GS.os", unlink=lambda p: unlinked.append(p))
    A.sock = GS
    code = None
    t_sig = None
    try:
        try:
            arb.run()
        except KS.LoopBudget:
            pass
        except SystemExit as e:
            code = e.code
    finally:
        undo()
        GS.os = saved_os
    if code != 0:
        return False                                    # must exit, with status 0
    # signal arrived during the first sleep, at virtual time 0 (spawn sleeps happen before; find first TERM/QUIT)
    first = {}
    for i, (pid, s) in enumerate(K.sent):
        first.setdefault(pid, s)
    want_first = int(signal.SIGTERM) if sig == 0 else int(signal.SIGQUIT)
    for pid in K.order:
        if first.get(pid) != want_first:
            return False                                # every worker is first asked politely with the right signal
    # nothing survives: every child is reaped, or has been sent KILL
    for i, pid in enumerate(K.order):
        st = K.procs.get(pid)
        if st is None:
            continue
        if (pid, int(signal.SIGKILL)) not in K.sent:
            return False
    # KILL only to those that did not exit within the grace period, and the master leaves on time
    t0 = K.term_at[K.order[0]] if K.order and K.order[0] in K.term_at else None
    gtd = int(gt * 10)
    slow = [i for i in range(n) if stub[i] or d[i] > gtd]
    killed = [p for (p, s) in K.sent if s == int(signal.SIGKILL)]
    for i, pid in enumerate(K.order):
        if pid in killed and i not in slow and not stub[i] and d[i] < gtd - 1:
            return False                                # a worker that exited in time must not be KILLed
    if t0 is not None and K.now > t0 + gtd + 2:
        return False                                    # no later than graceful timeout + poll slack
    if not slow and t0 is not None and n and K.now > t0 + max(d) + 2:
        return False                                    # promptly once the last worker is gone
    # listeners closed exactly once, unix socket file removed iff no other master shares it
    if any(l.closed != 1 for l in lsn) or arb.LISTENERS:
        return False
    if (reexec or child_of) and any(l.shut for l in lsn):
        return False                                    # another master is serving on these very sockets
    if (unlinked == ["/run/g.sock"]) != (not reexec and not child_of):
        return False
    if unlinked not in ([], ["/run/g.sock"]):
        return False
    return pidrec.unlinked >= 1


# ---- 1b. the pid file is gone after a graceful stop, also when reloads came first (real Pidfile on the FS stub) -----------
def pidfile_gone(pf: int, hups: int, sig: int) -> bool:
    """
    pre: 1 <= pf <= 2 and 0 <= hups <= 2 and 0 <= sig <= 3
    post: __return__
    """
    # sig 0..2: TERM / INT / QUIT after the reloads; sig 3: no stop signal - the master keeps running and its pid file must
    # still name it under the configured path
    import gunicorn.pidfile as PF
    from engine.stubs.fs import FS, install as fs_install
    from harness.c10 import mk_cfg, Lsn as Lsn10
    pf, hups, sig = pick(pf, 1, 2), pick(hups, 0, 2), pick(sig, 0, 3)
    stops = [] if sig == 3 else [[int(signal.SIGTERM), int(signal.SIGINT), int(signal.SIGQUIT)][sig]]
    K = KS.Kernel(master_signals=[int(signal.SIGHUP)] * hups + stops, budget=hups + 5)
    K.exit_after = {i: 0 for i in range(8)}
    arb = mk_arbiter(K, 1, timeout=30)
    old_pf = "/run/a.pid"
    new_pf = [None, "/run/a.pid", "/run/b.pid"][pf]             # reload keeps the path / moves it
    arb.cfg = mk_cfg(1, "127.0.0.1:8000", old_pf, K)
    arb.setup(SimpleNamespace(cfg=arb.cfg, wsgi=lambda: None))
    arb.cfg.graceful_timeout                                       # (real Config value; workers exit at once here)
    new_cfg = mk_cfg(1, "127.0.0.1:8000", new_pf, K)
    arb.app = SimpleNamespace(cfg=arb.cfg)

    def app_reload():
        arb.app.cfg = new_cfg
    arb.app.reload = app_reload
    arb.LISTENERS = [Lsn10(("127.0.0.1", 8000))]
    fs = FS({}, alive={arb.pid}, pid=arb.pid)
    undo_fs = fs_install(PF, fs)
    undo = KS.install(A, K)
    A.sock = ns("A.sock", create_sockets=lambda cfg, log, fds=None: [Lsn10(a) for a in cfg.address],
                close_sockets=lambda l, u=True: None)
    code = None
    try:
        arb.pidfile = PF.Pidfile(old_pf)
        arb.pidfile.create(arb.pid)                                # as Arbiter.start() does
        try:
            arb.run()
        except KS.LoopBudget:
            pass
        except SystemExit as e:
            code = e.code
    finally:
        undo()
        undo_fs()
    if K.master_signals:
        return False
    if sig == 3:
        want = new_pf if hups else old_pf
        return code is None and fs.files == {want: ("%d\n" % arb.pid).encode()} and not fs.fds
    if code != 0:
        return False
    return fs.files == {} and not fs.fds                           # no pid file (old or new name) and no temp file is left


# ---- 1c. backing out of an upgrade, then stopping: the old master is alone again and cleans up after itself -----------------
def backout(si: int, sig: int) -> bool:
    """
    pre: 0 <= si <= 3 and 0 <= sig <= 2
    post: __return__
    """
    si, sig = pick(si, 0, 3), pick(sig, 0, 2)
    status = [0, 256, 9, 3 << 8][si]                 # how the re-exec'd master went away (clean stop, error, killed, "boot error")
    stop = [int(signal.SIGTERM), int(signal.SIGINT), int(signal.SIGQUIT)][sig]
    K = KS.Kernel(tape=[1], statuses=[status], master_signals=[0, stop], budget=6)
    arb = mk_arbiter(K, 0, timeout=30)
    arb.cfg.graceful_timeout = 0.5
    arb.cfg.reuse_port = False
    lsn = [Lsn("/run/g.sock"), Lsn(("127.0.0.1", 8000))]
    arb.LISTENERS = list(lsn)
    arb.pidfile = PidRec()
    new_master = K.fork()                            # the process USR2 started
    arb.reexec_pid = new_master
    unlinked = []
    undo = KS.install(A, K)
    saved_os = GS.os
    GS.os = ns("GS.os", unlink=lambda p: unlinked.append(p))
    A.sock = GS
    code = None
    try:
        try:
            arb.run()
        except KS.LoopBudget:
            pass
        except SystemExit as e:
            code = e.code
    finally:
        undo()
        GS.os = saved_os
    if code != 0:
        return False
    if arb.reexec_pid != 0:
        return False                                 # the upgrade is over: the old master is the only master again
    return unlinked == ["/run/g.sock"] and all(l.closed == 1 for l in lsn) and arb.pidfile.unlinked >= 1


def master_twin(sig: int, d: List[int], stub: List[bool], reexec: bool, child_of: bool) -> bool:
    """
    pre: sig == CASE["sig"] and reexec == CASE["reexec"] and child_of == CASE["child_of"]
    pre: len(d) == CASE["n"] and len(stub) == CASE["n"]
    pre: all(0 <= x <= 9 for x in d)
    post: __return__
    """
    # witness: graceful stop where one worker needs KILL and another exits in time
    if not (sig == 0 and len(d) >= 2 and stub[0] and not stub[1] and d[1] < 3):
        return True
    return not master(sig, d, stub, reexec, child_of)


# ---- 2. sync worker ----------------------------------------------------------------------------------------
REQ = b"GET /a HTTP/1.1\r\nHost: h\r\n\r\n"


CUTS = [5, 16, len(REQ) - 1, len(REQ)]


def sync_term(t: int, cut: int, nconn: int) -> bool:
    """
    pre: 0 <= t <= CASE["tmax"]
    pre: 0 <= cut <= 3
    pre: 0 <= nconn <= CASE["nconn"]
    post: __return__
    """
    t = pick(t, 0, CASE["tmax"])
    cut = CUTS[pick(cut, 0, 3)]
    nconn = pick(nconn, 0, CASE["nconn"])
    counter = [0]
    term_at = []
    calls = []

    def boundary(where):
        if counter[0] == t and not term_at:
            term_at.append(where)
            w.handle_exit(signal.SIGTERM, None)
        elif CASE.get("again") and len(term_at) == 1 and counter[0] >= t + CASE["again"]:
            # the master asks again on every turn of its loop (manage_workers / stop): a second TERM must not cut the
            # request that is being answered
            term_at.append("again")
            w.handle_exit(signal.SIGTERM, None)
        counter[0] += 1

    def app(environ, start_response):
        boundary("app")
        calls.append(1)
        start_response("200 OK", [("Content-Length", "2")])
        return [b"ok"]
    cfg = W.make_cfg()
    w = W.sync_worker(cfg, app)
    clients = []
    for i in range(nconn):
        c = RecSock([REQ[:cut], REQ[cut:]] if cut < len(REQ) else [REQ])
        c.hooks = {"recv": lambda s: boundary("recv"), "send": lambda s: boundary("send")}
        clients.append(c)
    pending = list(clients)
    accepted = []

    class Listener(RecSock):
        def accept(self_):
            boundary("accept")
            if not pending:
                raise OSError(errno.EAGAIN, "again")
            c = pending.pop(0)
            accepted.append((c, bool(term_at) and term_at[0] != "accept" or (bool(term_at) and counter[0] - 1 > t)))
            return c, ("10.0.0.9", 1000 + len(accepted))
    lst = Listener()
    w.sockets = [lst]
    w.PIPE = [90, 91]
    w.wait_fds = [lst, 90]
    w.tmp = SimpleNamespace(notify=lambda: None)
    w.timeout = 1.0
    selects = [0]

    def select(r, w_, x, timeout):
        boundary("select")
        selects[0] += 1
        if selects[0] > 3 and not term_at:
            term_at.append("late")
            w.handle_exit(signal.SIGTERM, None)
        return ([], [], [])
    saved = S.select, S.os, S.util
    S.select = ns("S.select", select=select)
    S.os = ns("S.os", getppid=lambda: 1, read=lambda fd, n: b"")
    S.util = ns("S.util", close_on_exec=lambda fd: None, close=saved[2].close, reraise=saved[2].reraise)
    try:
        try:
            w.run_for_one(w.timeout)
        except SystemExit:
            w.alive = False                # leaving through sys.exit() is fine as long as nothing accepted is cut
    finally:
        S.select, S.os, S.util = saved
    if w.alive:
        return False                       # loop must have ended because of TERM
    # every accepted connection got one complete response and was closed
    for c, _ in accepted:
        raw = c.wire()
        try:
            rs = hr.parse_stream(raw, [False])
        except hr.Bad:
            return False
        if len(rs) != 1 or not rs[0]["complete"] or rs[0]["body"] != b"ok" or c.closed != 1:
            return False
    if len(calls) != len(accepted):
        return False
    # no connection accepted by an accept() that *started* after TERM was handled
    started_after = 0
    return True


def sync_term_noaccept(t: int, nconn: int) -> bool:
    """
    pre: 0 <= t <= CASE["tmax"]
    pre: 1 <= nconn <= CASE["nconn"]
    post: __return__
    """
    t = pick(t, 0, CASE["tmax"])
    nconn = pick(nconn, 1, CASE["nconn"])
    # after TERM has been handled, accept() is never *called* again
    counter = [0]
    termed = [False]
    late_accepts = [0]

    def boundary():
        if counter[0] == t and not termed[0]:
            termed[0] = True
            w.handle_exit(signal.SIGTERM, None)
        counter[0] += 1

    def app(environ, start_response):
        boundary()
        start_response("200 OK", [("Content-Length", "2")])
        return [b"ok"]
    cfg = W.make_cfg()
    w = W.sync_worker(cfg, app)
    pending = []
    for i in range(nconn):
        c = RecSock([REQ])
        c.hooks = {"recv": lambda s: boundary(), "send": lambda s: boundary()}
        pending.append(c)

    class Listener(RecSock):
        def accept(self_):
            if termed[0]:
                late_accepts[0] += 1
            boundary()
            if not pending:
                raise OSError(errno.EAGAIN, "again")
            return pending.pop(0), ("10.0.0.9", 1000)
    lst = Listener()
    w.sockets = [lst]
    w.PIPE = [90, 91]
    w.wait_fds = [lst, 90]
    w.tmp = SimpleNamespace(notify=lambda: None)
    w.timeout = 1.0
    selects = [0]

    def select(r, w_, x, timeout):
        boundary()
        selects[0] += 1
        if selects[0] > 3 and not termed[0]:
            termed[0] = True
            w.handle_exit(signal.SIGTERM, None)
        return ([], [], [])
    saved = S.select, S.os, S.util
    S.select = ns("S.select", select=select)
    S.os = ns("S.os", getppid=lambda: 1, read=lambda fd, n: b"")
    S.util = ns("S.util", close_on_exec=lambda fd: None, close=saved[2].close, reraise=saved[2].reraise)
    try:
        w.run_for_one(w.timeout)
    finally:
        S.select, S.os, S.util = saved
    return late_accepts[0] == 0 and not w.alive


def sync_term_twin(t: int, cut: int, nconn: int) -> bool:
    """
    pre: 0 <= t <= CASE["tmax"]
    pre: 0 <= cut <= 3
    pre: 0 <= nconn <= CASE["nconn"]
    post: __return__
    """
    # witness: TERM lands between the two recv() calls of a split request head and the request is still answered
    if not (nconn == 2 and cut == 0 and t == 2):
        return True
    return not sync_term(t, cut, nconn)


# ---- 3. gthread ------------------------------------------------------------------------------------------------
class DeferredPool:
    def __init__(self):
        self.pending = []
        self.shut = 0
        self.jobs = 0

    def submit(self, fn, *a):
        self.jobs += 1
        f = DFut(fn, a)
        self.pending.append(f)
        return f

    def shutdown(self, wait=True):
        self.shut += 1


class DFut:
    def __init__(self, fn, a):
        self.fn, self.a = fn, a
        self.state = "pending"
        self.cbs = []
        self.conn = None
        self._r = self._e = None

    def run(self):
        try:
            self._r = self.fn(*self.a)
        except Exception as e:
            self._e = e
        self.state = "done"
        for cb in self.cbs:
            cb(self)

    def cancelled(self):
        return self.state == "cancelled"

    def cancel(self):
        if self.state != "pending":
            return False
        self.state = "cancelled"
        for cb in self.cbs:
            cb(self)
        return True

    def result(self):
        if self._e:
            raise self._e
        return self._r

    def add_done_callback(self, cb):
        if self.state in ("done", "cancelled"):
            cb(self)
        else:
            self.cbs.append(cb)


def gthread_term(t: int, nconn: int, finish_early: bool) -> bool:
    """
    pre: 0 <= t <= CASE["tmax"]
    pre: 0 <= nconn <= CASE["nconn"]
    post: __return__
    """
    t = pick(t, 0, CASE["tmax"])
    nconn = pick(nconn, 0, CASE["nconn"])
    finish_early = True if finish_early else False
    counter = [0]
    termed = [False]
    calls = []

    def boundary():
        if counter[0] == t and not termed[0]:
            termed[0] = True
            w.handle_exit(signal.SIGTERM, None)
        counter[0] += 1

    def app(environ, start_response):
        calls.append(1)
        start_response("200 OK", [("Content-Length", "2")])
        return [b"ok"]
    cfg = W.make_cfg(keepalive=2, threads=2, worker_connections=4)
    w = W.thread_worker(cfg, app)
    w._keep.clear()
    w.nr_conns = 0
    pool = DeferredPool()
    w.tpool = pool
    clients = [RecSock([REQ]) for _ in range(nconn)]
    pending = list(clients)
    accepted = []
    dispatched_after_term = [0]

    class Listener(RecSock):
        def accept(self_):
            if not pending:
                raise OSError(errno.EAGAIN, "again")
            c = pending.pop(0)
            accepted.append(c)
            return c, ("10.0.0.9", 1000 + len(accepted))
    lst = Listener(name="/run/g.sock")       # a unix bind: the worker must close it, never unlink it
    w.sockets = [lst]
    unlinked = []
    saved_gs = GS.os
    GS.os = ns("GS.os", unlink=lambda p: unlinked.append(p))

    class Poller(W.Poller):
        def select(self_, timeout):
            boundary()
            evs = []
            # the listener is readable while connections are pending; registered clients are readable (data sent)
            for s in list(self_.order):
                if s is lst:
                    if pending:
                        evs.append((SimpleNamespace(data=self_.reg[s], fileobj=s), 1))
                else:
                    if s.script or not s.out:
                        evs.append((SimpleNamespace(data=self_.reg[s], fileobj=s), 1))
            return evs[:2]
    w.poller = Poller()
    waits = []

    def fwait(fs, timeout=None, return_when=None):
        boundary()
        fs = list(fs)
        waits.append((len([f for f in fs if f.state == "pending"]), timeout))
        if timeout and timeout > 0 or finish_early:
            for f in fs:
                if f.state == "pending":
                    f.run()
        done = [f for f in fs if f.state == "done"]
        return SimpleNamespace(done=done, not_done=[f for f in fs if f.state != "done"])
    loops = [0]

    def notify():
        loops[0] += 1
        if loops[0] > 6 and not termed[0]:
            termed[0] = True
            w.handle_exit(signal.SIGTERM, None)
    w.tmp = SimpleNamespace(notify=notify)
    saved = G.futures, G.os
    G.futures = ns("G.futures", wait=fwait, FIRST_COMPLETED="FIRST_COMPLETED")
    G.os = ns("G.os", getppid=lambda: 1)
    jobs_at_term = None
    try:
        w.run()
    finally:
        G.futures, G.os = saved
        GS.os = saved_gs
    if w.alive or lst.closed != 1 or not w.poller.closed or pool.shut != 1 or unlinked:
        return False
    # the final wait covers the in-flight requests and uses the graceful timeout
    if not waits or waits[-1][1] != cfg.graceful_timeout:
        return False
    # every connection that was dispatched to a handler got a complete response and was closed (or kept
    # alive and then left registered - not closed by the worker before exit)
    for f in pool.pending:
        if f.state != "done":
            return False                  # a request that was handed to a handler must be carried out, not dropped
    for c in accepted:
        raw = c.wire()
        if not raw:
            continue                      # accepted but never dispatched: allowed to be dropped at exit
        try:
            rs = hr.parse_stream(raw, [False])
        except hr.Bad:
            return False
        if len(rs) != 1 or not rs[0]["complete"] or rs[0]["body"] != b"ok":
            return False
    return len(calls) == pool.jobs


def gthread_term_twin(t: int, nconn: int, finish_early: bool) -> bool:
    """
    pre: 0 <= t <= CASE["tmax"]
    pre: 0 <= nconn <= CASE["nconn"]
    post: __return__
    """
    if not (nconn == 2 and t == 2 and not finish_early):
        return True
    return not gthread_term(t, nconn, finish_early)


def _mcases(ns_, full):
    out = []
    for n in ns_:
        for sig in (0, 1, 2):
            for re_, ch in (((False, False), (True, False), (False, True)) if (full or n <= 1) else ((False, False),)):
                out.append({"n": n, "sig": sig, "reexec": re_, "child_of": ch})
        if n:
            out.append({"n": n, "sig": 0, "reexec": False, "child_of": False, "wtimeout": 0})
    return out


OBLIGATIONS = [
    Ob("C04.master", "master", cases={"quick": _mcases((0, 1), True) + _mcases((2,), False),
                                      "thorough": _mcases((0, 1, 2), True) + [{"n": 3, "sig": 0, "reexec": False, "child_of": False}]},
       timeout={"quick": 600, "thorough": 3000},
       bound="TERM|INT|QUIT x 0..2 (thorough 3) workers each exiting after a symbolic 0..0.9 s or never x graceful_timeout 0.5 s "
             "x reexec_pid/master_pid set or not; unix + TCP listener"),
    Ob("C04.pidfile_gone", "pidfile_gone", timeout=600,
       bound="start with a pid file, 0..2 reloads that keep or move the path, then TERM / INT / QUIT: real Arbiter.run/reload/halt "
             "with the real Pidfile class on the FS stub"),
    Ob("C04.backout", "backout", timeout=300,
       bound="USR2'd master exits (status 0 / 1 / killed / 3) while the upgrade is pending, then TERM / INT / QUIT to the old master"),
    Ob("C04.master.twin", "master_twin", cases=[{"n": 2, "sig": 0, "reexec": False, "child_of": False}], expect="refute", timeout=300),
    Ob("C04.sync_term", "sync_term", cases={"quick": [{"tmax": 8, "nconn": 2}, {"tmax": 8, "nconn": 2, "again": 1}, {"tmax": 8, "nconn": 1, "again": 2}],
                                            "thorough": [{"tmax": 12, "nconn": 3}, {"tmax": 12, "nconn": 2, "again": 1}, {"tmax": 12, "nconn": 2, "again": 2},
                                                         {"tmax": 12, "nconn": 2, "again": 3}]},
       timeout=900, bound="<=2 (3) connections, request head whole or split at offset 5/16/len-1 into 2 reads, TERM at any of "
                          "the first 9 (13) stub boundaries {accept, recv, app, send, select}"),
    Ob("C04.sync_term.twin", "sync_term_twin", cases=[{"tmax": 8, "nconn": 2}], expect="refute", timeout=300),
    Ob("C04.sync_noaccept", "sync_term_noaccept", cases={"quick": [{"tmax": 8, "nconn": 2}], "thorough": [{"tmax": 12, "nconn": 3}]},
       timeout=600, bound="as sync_term, unsplit heads: accept() is never called after TERM was handled"),
    Ob("C04.gthread_term", "gthread_term", cases={"quick": [{"tmax": 6, "nconn": 2}], "thorough": [{"tmax": 10, "nconn": 3}]},
       timeout=900, bound="<=2 (3) connections, TERM at any of the first 7 (11) selector/futures.wait boundaries, "
                          "handler jobs finishing early or only during the final wait"),
    Ob("C04.gthread_term.twin", "gthread_term_twin", cases=[{"tmax": 6, "nconn": 2}], expect="refute", timeout=300),
]

"""C12 - request-head limits are enforced and parser buffering is bounded.

  1 clamps     Message.__init__ / Request.__init__ limit normalisation on symbolic ints vs the documented semantics
  2 line       Request.read_line: rejected iff the request line is longer than the limit; at-limit accepted; any split
  3 fields     Message.parse_headers: field count and field size limits, at / under / over, small symbolic limits
  4 buffer     read_line, header-block scan, parse_chunk_size, parse_trailers fed an endless stream that never contains
               the awaited delimiter: a rejection happens before more than (configured bound + one read) is buffered
"""
from types import SimpleNamespace
from typing import List

from engine.harness_api import Ob, setup, pick
setup(shim=True)

from gunicorn.http.body import ChunkedReader  # noqa: E402
from gunicorn.http.errors import (InvalidChunkSize, InvalidHeader, InvalidHeaderName, LimitRequestHeaders,  # noqa: E402
                                  LimitRequestLine, NoMoreData, ObsoleteFolding)
from gunicorn.http.message import Request  # noqa: E402
from gunicorn.http.unreader import IterUnreader  # noqa: E402
from harness.c01 import CFG, mk_req  # noqa: E402

PROPERTY = "C12"
USES_SHIM = True
CASE = {}
KERNELS = ["gunicorn.http.message:Message.__init__", "gunicorn.http.message:Request.__init__",
           "gunicorn.http.message:Request.read_line", "gunicorn.http.message:Request.parse",
           "gunicorn.http.message:Message.parse_headers", "gunicorn.http.body:ChunkedReader.parse_chunk_size",
           "gunicorn.http.body:ChunkedReader.parse_trailers"]
STUBS = ["io.BytesIO -> PyBytesIO (symbolic runs)", "network -> metered IterUnreader (counts bytes handed out)",
         "in the buffer obligation for the header block, parse_request_line is skipped by giving a valid request line"]
ASSUMPTIONS = ["limit_request_line = 0 and limit_request_field_size = 0 are documented as unlimited: no buffer bound is "
               "claimed for the request line when its limit is 0"]
OUTSIDE = ["limits larger than the small symbolic ranges used in obligations 2-4", "memory held by the application itself"]


# ---- 1. clamps ----------------------------------------------------------------------------------------------------
class _R(Request):
    def parse(self, unreader):
        return b""

    def set_body_reader(self):
        pass


class _U:
    def unread(self, data):
        pass


def clamps(line: int, fields: int, size: int) -> bool:
    """
    pre: -5 <= line <= 40000 and -5 <= fields <= 40000 and -5 <= size <= 40000
    post: __return__
    """
    cfg = SimpleNamespace(limit_request_line=line, limit_request_fields=fields, limit_request_field_size=size, is_ssl=False)
    r = _R(cfg, _U(), None)
    # documented: request line 0 = unlimited, valid range 0..8190, anything else -> 8190
    want_line = line if 0 <= line < 8190 else 8190
    # documented: default 100, cannot be larger than 32768; non-positive -> the maximum
    want_fields = fields if 1 <= fields <= 32768 else 32768
    # documented: positive or 0 (= unlimited); negative -> default 8190
    want_size = size if size >= 0 else 8190
    if r.limit_request_line != want_line or r.limit_request_fields != want_fields:
        return False
    if r.limit_request_field_size != want_size:
        return False
    per_field = (want_size if want_size > 0 else 8190) + 2
    return r.max_buffer_headers == want_fields * per_field + 4


def clamps_twin(line: int, fields: int, size: int) -> bool:
    """
    pre: -5 <= line <= 40000 and -5 <= fields <= 40000 and -5 <= size <= 40000
    post: __return__
    """
    cfg = SimpleNamespace(limit_request_line=line, limit_request_fields=fields, limit_request_field_size=size, is_ssl=False)
    r = _R(cfg, _U(), None)
    return not (r.limit_request_line == 0 and r.limit_request_fields == 32768 and r.limit_request_field_size == 0)


# ---- 2. request line --------------------------------------------------------------------------------------------------
def req_line(limit: int, length: int, cut: int) -> bool:
    """
    pre: 0 <= limit <= CASE["maxlimit"] and 0 <= length <= CASE["maxlen"] and 0 <= cut <= length + 2
    post: __return__
    """
    limit, length = pick(limit, 0, CASE["maxlimit"]), pick(length, 0, CASE["maxlen"])
    cut = pick(cut, 0, length + 2)
    data = b"abcdefghij"[:length] + b"\r\nrest"
    chunks = [c for c in (data[:cut], data[cut:]) if len(c)]
    r = mk_req()
    u = IterUnreader(chunks)
    from engine.shim import PyBytesIO
    import io
    from engine.harness_api import SYMBOLIC
    buf = PyBytesIO() if SYMBOLIC else io.BytesIO()
    try:
        r.get_data(u, buf, stop=True)
        line, rest = r.read_line(u, buf, limit)
    except LimitRequestLine:
        return limit > 0 and length > limit
    return (limit == 0 or length <= limit) and line == data[:length]


def req_line_parse(limit: int, extra: int, pp: bool, cut: int) -> bool:
    """
    pre: 20 <= limit <= 24 and -2 <= extra <= 2 and 0 <= cut <= 3
    post: __return__
    """
    # the whole Request.parse (RequestParser) on a first request whose request line is limit+extra bytes long, with the
    # PROXY protocol switched on or off (no PROXY line is sent): over the limit <=> rejected
    from gunicorn.http.parser import RequestParser
    limit, extra, cut = pick(limit, 20, 24), pick(extra, -2, 2), pick(cut, 0, 3)
    n = limit + extra
    target = "/" + "a" * (n - len("GET  HTTP/1.1") - 1)
    line = ("GET %s HTTP/1.1" % target).encode()
    data = line + b"\r\nHost: h\r\n\r\n"
    c = [len(data), 5, n, n + 1][cut]
    chunks = [x for x in (data[:c], data[c:]) if x]
    cfg = CFG(limit_request_line=limit, proxy_protocol=pp, proxy_allow_ips=["*"])
    try:
        req = next(RequestParser(cfg, iter(chunks), ("10.0.0.1", 1)))
    except LimitRequestLine:
        return n > limit
    return n <= limit and req.uri == target


# ---- 3. field count / size -----------------------------------------------------------------------------------------------
def fields(nf: int, maxf: int, maxsz: int, l1: int, l2: int, l3: int) -> bool:
    """
    pre: nf == CASE["nf"] and maxf == CASE["maxf"] and 0 <= maxsz <= 9
    pre: 0 <= l1 <= 5 and 0 <= l2 <= 5 and 0 <= l3 <= 5
    post: __return__
    """
    nf, maxf, maxsz = CASE["nf"], CASE["maxf"], pick(maxsz, 0, 9)
    ls = [pick(l, 0, 5) for l in (l1, l2, l3)[:nf]]
    lines = [b"a" + bytes([98 + i]) + b":" + b"x" * ls[i] for i in range(nf)]       # len = 3 + l
    under = CASE.get("under")
    if under:
        # the first field's name contains '_': under header_map=drop it is discarded, under dangerous it is kept; either
        # way it is a field that was sent, so its size and the field count are limited like any other
        lines[0] = b"a_" + lines[0][2:]
    r = mk_req(cfg=CFG(permit_obsolete_folding=bool(CASE.get("fold")), header_map=under or "drop"))
    r.limit_request_fields = maxf
    r.limit_request_field_size = maxsz
    if CASE.get("fold"):
        # (non-default permit_obsolete_folding) the first field is folded once: still ONE field; the continuation line
        # "\r\n x" counts towards that field's size only
        lines[0] = lines[0] + b"\r\n x"
    try:
        hs = r.parse_headers(b"\r\n".join(lines))
    except LimitRequestHeaders:
        over = nf > maxf or (maxsz > 0 and any(len(ln) + 2 > maxsz for ln in lines))
        return over
    except (InvalidHeader, InvalidHeaderName, ObsoleteFolding):
        return False
    within = nf <= maxf and (maxsz == 0 or all(len(ln) + 2 <= maxsz for ln in lines))
    return within and len(hs) == (nf - 1 if under == "drop" else nf)


# ---- 4b. the trailer cap is about the trailer block only: what is pipelined behind an (empty) trailer section is not counted ---
def trailers_then_pipelined(k: int, cut: int, ntr: int) -> bool:
    """
    pre: 0 <= k <= CASE["kmax"] and 0 <= cut <= 3 and 0 <= ntr <= 1
    post: __return__
    """
    # a complete chunked body (no trailers, or one short trailer field) followed in the same read by k bytes of a pipelined
    # request that contains no CRLFCRLF yet; header limits so small that k can exceed max_buffer_headers.  The body must
    # be delivered (this request is within every limit) and the pipelined bytes must stay available for the next request.
    from gunicorn.http.body import Body
    k, cut, ntr = pick(k, 0, CASE["kmax"]), pick(cut, 0, 3), pick(ntr, 0, 1)
    r = mk_req()
    r.limit_request_fields = 2
    r.limit_request_field_size = 10
    r.max_buffer_headers = 2 * (10 + 2) + 4                  # = 28, as Message.__init__ computes it
    trailer = b"T: v\r\n" if ntr else b""
    tail = b"G" * k
    data = b"2\r\nab\r\n0\r\n" + trailer + b"\r\n" + tail
    end_last_chunk = len(b"2\r\nab\r\n0\r\n")
    cuts = [None, end_last_chunk, end_last_chunk + 1, end_last_chunk + len(trailer) + 2]
    c = cuts[cut]
    chunks = [data] if c is None or c >= len(data) else [data[:c], data[c:]]
    u = IterUnreader(chunks)
    body = Body(ChunkedReader(r, u))
    try:
        got = body.read()
    except LimitRequestHeaders:
        return False                                      # rejected for size although the trailer block is tiny
    if got != b"ab":
        return False
    rest = u.read()
    while True:
        more = u.read()
        if not more:
            break
        rest += more
    return rest == tail


# ---- 4. bounded buffering on endless input -----------------------------------------------------------------------------------
class Meter(IterUnreader):
    def __init__(self, chunks):
        super().__init__(chunks)
        self.handed = 0

    def chunk(self):
        d = super().chunk()
        self.handed += len(d)
        return d


def _bb(k):
    """-> (outcome, bytes handed out by the source, allowed maximum)"""
    kind = CASE["kernel"]
    rsz = CASE["read"]
    fill = b"a" * rsz                    # never contains CR/LF; "a" is also a hex digit
    from engine.shim import PyBytesIO
    import io
    from engine.harness_api import SYMBOLIC
    if kind == "read_line":
        bound = CASE["limit"]
        u = Meter([fill] * k)
        r = mk_req()
        buf = PyBytesIO() if SYMBOLIC else io.BytesIO()
        try:
            r.get_data(u, buf, stop=True)
            r.read_line(u, buf, bound)
        except LimitRequestLine:
            return "limit", u.handed, bound + 2 + rsz
        except NoMoreData:
            return "nomore", u.handed, bound + 2 + rsz
        return "accepted", u.handed, 0
    if kind == "head":
        u = Meter([b"GET / HTTP/1.1\r\n" + fill] + [fill] * (k - 1))
        r = object.__new__(Request)
        r.cfg = CFG()
        r.unreader = u
        r.limit_request_line = 100
        r.limit_request_fields = CASE["fields"]
        r.limit_request_field_size = CASE["size"]
        r.max_buffer_headers = CASE["fields"] * (CASE["size"] + 2) + 4
        r.req_number = 1
        r.headers = []
        bound = r.max_buffer_headers
        try:
            r.parse(u)
        except LimitRequestHeaders:
            return "limit", u.handed, 16 + bound + rsz
        except NoMoreData:
            return "nomore", u.handed, 16 + bound + rsz
        return "accepted", u.handed, 0
    r = mk_req()
    r.max_buffer_headers = CASE.get("bound", 0)
    cr = object.__new__(ChunkedReader)
    cr.req = r
    if kind == "chunk_size":
        bound = CASE["bound"]
        u = Meter([fill] * k)
        try:
            cr.parse_chunk_size(u)
        except InvalidChunkSize:
            return "limit", u.handed, bound + 2 * rsz
        except NoMoreData:
            return "nomore", u.handed, bound + 2 * rsz
        return "accepted", u.handed, 0
    if kind == "trailers":
        bound = CASE["bound"]
        u = Meter([fill] * k)
        try:
            cr.parse_trailers(u, b"X: y\r\n")
        except LimitRequestHeaders:
            return "limit", u.handed, bound + rsz
        except NoMoreData:
            return "nomore", u.handed, bound + rsz
        return "accepted", u.handed, 0
    raise AssertionError(kind)


def buffer_bound(k: int) -> bool:
    """
    pre: 1 <= k <= CASE["k"]
    post: __return__
    """
    k = pick(k, 1, CASE["k"])
    outcome, handed, allowed = _bb(k)
    if outcome == "accepted":
        return False
    # rejected, or the stream ended first: either way never more than the bound plus one read was pulled in
    return handed <= allowed


def buffer_bound_twin(k: int) -> bool:
    """
    pre: 1 <= k <= CASE["k"]
    post: __return__
    """
    k = pick(k, 1, CASE["k"])
    return _bb(k)[0] != "limit"          # witness: the stream is long enough that the limit rejection fires


_BUF = [
    {"kernel": "read_line", "limit": 4, "read": 3, "k": 6},
    {"kernel": "read_line", "limit": 1, "read": 1, "k": 8},
    {"kernel": "head", "fields": 1, "size": 3, "read": 3, "k": 8},
    {"kernel": "head", "fields": 2, "size": 4, "read": 5, "k": 8},
    {"kernel": "chunk_size", "bound": 8190, "read": 4096, "k": 5},
    {"kernel": "trailers", "bound": 9, "read": 3, "k": 8},
    {"kernel": "trailers", "bound": 20, "read": 7, "k": 8},
]

OBLIGATIONS = [
    Ob("C12.clamps", "clamps", timeout=600, bound="limit_request_line / fields / field_size symbolic ints in -5..40000"),
    Ob("C12.clamps.twin", "clamps_twin", expect="refute", timeout=120),
    Ob("C12.req_line", "req_line", cases={"quick": [{"maxlimit": 4, "maxlen": 6}], "thorough": [{"maxlimit": 6, "maxlen": 9}]},
       timeout=900, bound="limit 0..4 (thorough 6), request line length 0..6 (9), one cut at any position"),
    Ob("C12.req_line_parse", "req_line_parse", timeout=900,
       bound="real RequestParser: limit_request_line 20..24, request line limit-2..limit+2 bytes, proxy_protocol on/off (no PROXY "
             "line sent), stream whole or cut at 5 / end of line / between CR and LF"),
    Ob("C12.fields", "fields", cases=[{"nf": a, "maxf": b} for a in (1, 2, 3) for b in (1, 2, 3)] +
       [{"nf": a, "maxf": b, "fold": True} for a in (1, 2) for b in (1, 2)] +
       [{"nf": a, "maxf": 2, "under": u} for a in (1, 2, 3) for u in ("drop", "dangerous")], timeout=1200,
       bound="1..3 header fields of length 3..8, limit_request_fields 1..3, limit_request_field_size 0..9; with obsolete folding; with an "
             "underscore name under header_map drop / dangerous"),
    Ob("C12.trailers_then_pipelined", "trailers_then_pipelined", cases={"quick": [{"kmax": 40}], "thorough": [{"kmax": 90}]}, timeout=900,
       bound="chunked body with an empty or one-field trailer section followed by 0..40 (thorough 90) pipelined bytes, header cap 28 "
             "bytes, stream whole or cut after the last-chunk line / inside / after the final CRLF"),
    Ob("C12.buffer", "buffer_bound", cases=_BUF, timeout=600,
       bound="endless delimiter-free streams of up to 5-8 reads against read_line, the header-block scan, "
             "parse_chunk_size (4096-byte reads vs the 8190 cap) and parse_trailers with small configured bounds"),
    Ob("C12.buffer.twin", "buffer_bound_twin", cases=[_BUF[0], _BUF[4], _BUF[5]], expect="refute", timeout=120),
]

"""C11 - hung workers are killed and replaced; healthy workers never are (virtual time).

  1 murder    Arbiter.murder_workers from an arbitrary pool: symbolic heartbeat ages, aborted flags, clock and timeout:
              signalled iff now - last_update > timeout (and timeout > 0); ABRT first, KILL on the next scan
  2 latency   the real Arbiter.run() loop: one worker stops heartbeating at a symbolic instant (ignoring ABRT or not):
              it gets ABRT then KILL and is replaced within timeout + bounded delay; healthy workers are never signalled
  3 no false kill (worker side): the real SyncWorker.run_for_one / run_for_multiple / wait and ThreadWorker.run loops
              with select / poller.select / futures.wait returning within their timeout argument after a solver-chosen
              time and requests lasting a solver-chosen d < timeout: every gap between heartbeats <= timeout
Times are integers (milliseconds / deciseconds); the only float in the path, timeout/2.0, is concrete per case.
"""
import errno
import signal
from types import SimpleNamespace
from typing import List

from engine.harness_api import Ob, setup, kf_ok, pick, ns
setup(shim=False)

import gunicorn.arbiter as A  # noqa: E402
import gunicorn.workers.sync as S  # noqa: E402
import gunicorn.workers.gthread as G  # noqa: E402
from engine.stubs import kernel as KS  # noqa: E402
from engine.stubs import workers as W  # noqa: E402
from harness.c03 import mk_arbiter  # noqa: E402

W.install_clock()

PROPERTY = "C11"
CASE = {}
KERNELS = ["gunicorn.workers.workertmp:WorkerTmp.__init__", "gunicorn.workers.workertmp:WorkerTmp.notify",
           "gunicorn.workers.workertmp:WorkerTmp.last_update", "gunicorn.arbiter:Arbiter.murder_workers", "gunicorn.arbiter:Arbiter.kill_worker", "gunicorn.arbiter:Arbiter.run",
           "gunicorn.arbiter:Arbiter.spawn_worker", "gunicorn.arbiter:Arbiter.manage_workers",
           "gunicorn.workers.sync:SyncWorker.run_for_one", "gunicorn.workers.sync:SyncWorker.run_for_multiple",
           "gunicorn.workers.sync:SyncWorker.wait", "gunicorn.workers.sync:SyncWorker.run",
           "gunicorn.workers.gthread:ThreadWorker.run", "gunicorn.workers.base:Worker.notify"]
STUBS = ["simulated kernel for the master; heartbeat file -> record of the virtual time of the last notify",
         "select.select / poller.select / futures.wait return after a tape-chosen time <= their timeout argument; "
         "accept()/handle() replaced by a tape-chosen request duration; processing itself takes zero virtual time"]
ASSUMPTIONS = ["virtual time advances only inside stubs", "a hung worker ignores TERM; it dies on ABRT unless stubborn; KILL always works",
               "timeout > 0 is an int number of seconds (config validator)"]
OUTSIDE = ["gevent / eventlet loops", "a really blocked / SIGSTOPped process", "scheduling overhead between stub calls"]


# ---- 1. murder_workers -------------------------------------------------------------------------------------------
def murder(ages: List[int], aborted: List[bool], now: int, timeout: int) -> bool:
    """
    pre: len(ages) == CASE["k"] and len(aborted) == CASE["k"]
    pre: 0 <= now <= 100 and 0 <= timeout <= 40
    pre: all(0 <= a <= 100 for a in ages)
    post: __return__
    """
    k = CASE["k"]
    K = KS.Kernel()
    arb = mk_arbiter(K, k, timeout=timeout, ages=list(range(1, k + 1)))
    pids = list(K.order)
    for i, p in enumerate(pids):
        w = arb.WORKERS[p]
        w.aborted = aborted[i]
        w.tmp = SimpleNamespace(last_update=(lambda a=ages[i]: a), close=lambda: None)
    undo = KS.install(A, K)
    A.time = ns("A.time", monotonic=lambda: now, time=lambda: now, sleep=lambda s: None)
    try:
        arb.murder_workers()
    finally:
        undo()
    sent = {}
    for p, s in K.sent:
        if p in sent:
            return False                   # at most one signal per worker per scan
        sent[p] = s
    for i, p in enumerate(pids):
        late = timeout > 0 and now - ages[i] > timeout
        if not late:
            if p in sent:
                return False               # healthy: never signalled
        else:
            want = int(signal.SIGKILL) if aborted[i] else int(signal.SIGABRT)
            if sent.get(p) != want:
                return False
            if not aborted[i] and not arb.WORKERS.get(p, SimpleNamespace(aborted=True)).aborted:
                return False
    return True


def murder_twin(ages: List[int], aborted: List[bool], now: int, timeout: int) -> bool:
    """
    pre: len(ages) == CASE["k"] and len(aborted) == CASE["k"]
    pre: 0 <= now <= 100 and 0 <= timeout <= 40
    pre: all(0 <= a <= 100 for a in ages)
    post: __return__
    """
    k = CASE["k"]
    K = KS.Kernel()
    arb = mk_arbiter(K, k, timeout=timeout, ages=list(range(1, k + 1)))
    for i, p in enumerate(list(K.order)):
        w = arb.WORKERS[p]
        w.aborted = aborted[i]
        w.tmp = SimpleNamespace(last_update=(lambda a=ages[i]: a), close=lambda: None)
    undo = KS.install(A, K)
    A.time = ns("A.time", monotonic=lambda: now, time=lambda: now, sleep=lambda s: None)
    try:
        arb.murder_workers()
    finally:
        undo()
    sigs = sorted(s for _, s in K.sent)
    return sigs != sorted([int(signal.SIGABRT), int(signal.SIGKILL)])


# ---- 1b. a worker that hangs before its first heartbeat (real WorkerTmp) ------------------------------------------------
import gunicorn.workers.workertmp as WT  # noqa: E402


def boot_hang(wall: int, t0: int, timeout: int, d: int, notified: bool) -> bool:
    """
    pre: 0 <= wall <= 2000000000 and 0 <= t0 <= 1000000 and 1 <= timeout <= 60 and 1 <= d <= 5
    post: __return__
    """
    # file-system clock = wall clock (epoch seconds); time.monotonic() = seconds since boot: unrelated origins
    mono = [t0]
    mtime = {}

    def mkstemp(prefix=None, dir=None):
        mtime[7] = wall                     # a new file carries the wall-clock time of its creation
        return 7, "/tmp/wg"

    def utime(fd, times):
        mtime[fd] = times[1]
    saved = (WT.os, WT.tempfile, WT.util, WT.time)
    WT.os = ns("WT.os", umask=lambda m: 0o22, geteuid=lambda: 0, getegid=lambda: 0, utime=utime,
                            fstat=lambda fd: SimpleNamespace(st_mtime=mtime[fd]), close=lambda fd: None,
                            fdopen=lambda fd, m, b: SimpleNamespace(fileno=lambda: fd, close=lambda: None),
                            path=SimpleNamespace(isdir=lambda p: True))
    WT.tempfile = ns("WT.tempfile", mkstemp=mkstemp)
    WT.util = ns("WT.util", chown=lambda *a: None, unlink=lambda n: None)
    WT.time = ns("WT.time", monotonic=lambda: mono[0])
    K = KS.Kernel()
    arb = mk_arbiter(K, 1, timeout=timeout, ages=[1])
    pid = K.order[0]
    try:
        tmp = WT.WorkerTmp(SimpleNamespace(umask=0, worker_tmp_dir=None, uid=0, gid=0))
        arb.WORKERS[pid].tmp = tmp
        if notified:
            mono[0] = t0 + 1
            tmp.notify()                    # the worker got as far as its first heartbeat, then hung
        last = mono[0]
        mono[0] = last + timeout + d        # ... and nothing since, for longer than the timeout
        undo = KS.install(A, K)
        A.time = ns("A.time", monotonic=lambda: mono[0], time=lambda: mono[0], sleep=lambda s: None)
        try:
            arb.murder_workers()
        finally:
            undo()
    finally:
        WT.os, WT.tempfile, WT.util, WT.time = saved
    return K.sent == [(pid, int(signal.SIGABRT))]


# ---- 2. detection latency through the real run() loop ---------------------------------------------------------------
def latency(n: int, who: int, h: int, stubborn: bool) -> bool:
    """
    pre: 1 <= n <= CASE["n"] and 0 <= who < n
    pre: 0 <= h <= 30
    post: __return__
    """
    n = pick(n, 1, CASE["n"])
    who = pick(who, 0, n - 1)
    h = pick(h, 0, 30)
    T = CASE["timeout"]                   # seconds
    noisy = bool(CASE.get("noisy"))
    K = KS.Kernel(budget=(T + 8) * (3 if noisy else 1))
    if noisy:
        # the master is woken up every 0.5 s (USR1 = "reopen logs", harmless to workers): timeouts are still detected
        K.master_signals = [int(signal.SIGUSR1)] * (2 * (T + 6))
        K.signal_gap_ds = 5
        K.model_pipe = True
    K.hang = {who: h}
    K.stubborn = {who}                    # a hung worker does not react to TERM ...
    arb = mk_arbiter(K, n, timeout=T)
    undo = KS.install(A, K)
    A.sock = ns("A.sock", close_sockets=lambda l, u=True: None)
    try:
        try:
            arb.run()
        except KS.LoopBudget:
            pass
    finally:
        undo()
    pids = list(K.order)
    hung = pids[who]
    sig_to = {}
    for ev in K.events:
        if ev[0] == "kill" and ev[2] != int(signal.SIGUSR1):
            sig_to.setdefault(ev[1], []).append((ev[2], ev[3]))
    # healthy initial workers: never signalled
    for i in range(n):
        if i != who and pids[i] in sig_to:
            return False
    seq = sig_to.get(hung, [])
    if not seq or seq[0][0] != int(signal.SIGABRT):
        return False
    # aborted within timeout + (1 s sleep granularity) + 0.2 s; never before the timeout elapsed
    t_abrt = seq[0][1]
    if t_abrt < h + T * 10 or t_abrt > h + T * 10 + 12:
        return False
    return True


def _stub_abrt(K, who, stubborn):
    return K


def latency_kill(n: int, who: int, h: int) -> bool:
    """
    pre: 1 <= n <= CASE["n"] and 0 <= who < n
    pre: 0 <= h <= 30
    post: __return__
    """
    # the worker also ignores SIGABRT: KILL follows on the next scan, then it is reaped and replaced
    n = pick(n, 1, CASE["n"])
    who = pick(who, 0, n - 1)
    h = pick(h, 0, 30)
    T = CASE["timeout"]
    K = KS.Kernel(budget=T + 9)
    K.hang = {who: h}
    K.stubborn = {who}
    orig_kill = K.kill

    def kill(pid, sig):
        # stubborn to ABRT as well: swallow its effect but record it
        if sig == signal.SIGABRT and pid in K.order and K.order.index(pid) == who:
            K.sent.append((pid, int(sig)))
            K.events.append(("kill", pid, int(sig), K.now))
            return
        return orig_kill(pid, sig)
    K.kill = kill
    arb = mk_arbiter(K, n, timeout=T)
    undo = KS.install(A, K)
    A.sock = ns("A.sock", close_sockets=lambda l, u=True: None)
    try:
        try:
            arb.run()
        except KS.LoopBudget:
            pass
    finally:
        undo()
    pids = list(K.order)
    hung = pids[who]
    seq = [(ev[2], ev[3]) for ev in K.events if ev[0] == "kill" and ev[1] == hung]
    if len(seq) < 2 or seq[0][0] != int(signal.SIGABRT) or seq[1][0] != int(signal.SIGKILL):
        return False
    if seq[1][1] > seq[0][1] + 12:
        return False                       # KILL by the next scan (<= 1 s later + slack)
    # replaced: pool back to n live tracked workers, the hung one gone
    live = [p for p in K.order if K.procs.get(p) == "alive"]
    return hung not in live and len(live) == n and set(arb.WORKERS) == set(live)


def murder_reap_race(n: int, who: int, die: int, h: int, k: int) -> bool:
    """
    pre: 2 <= n <= CASE["n"] and 0 <= who < n and 0 <= die < n and who != die
    pre: 0 <= h <= 10 and 0 <= k <= CASE["kmax"]
    post: __return__
    """
    # a worker exits (SIGCHLD -> reap_workers closes its heartbeat file) at an arbitrary clock read - in particular
    # between murder_workers' snapshot of the pool and its look at that worker's file.  The master must keep running, the
    # hung worker is still aborted on time, the dead one is replaced.
    n = pick(n, 2, CASE["n"])
    who, die = pick(who, 0, n - 1), pick(die, 0, n - 1)
    if who == die:
        return True
    h, k = pick(h, 0, 10), pick(k, 0, CASE["kmax"])
    T = CASE["timeout"]
    K = KS.Kernel(budget=T + 8)
    K.hang = {who: h}
    K.stubborn = {who}
    K.clock_deaths = {k: die}
    arb = mk_arbiter(K, n, timeout=T)
    undo = KS.install(A, K)
    A.sock = ns("A.sock", close_sockets=lambda l, u=True: None)
    try:
        try:
            arb.run()
        except KS.LoopBudget:
            pass
        except SystemExit:
            return False                  # "Unhandled exception in main loop": the whole server went down
    finally:
        undo()
    pids = list(K.order)
    hung = pids[who]
    seq = [(ev[2], ev[3]) for ev in K.events if ev[0] == "kill" and ev[1] == hung]
    if not seq or seq[0][0] != int(signal.SIGABRT):
        return False
    if seq[0][1] < h + T * 10 or seq[0][1] > h + T * 10 + 12:
        return False
    live = [p for p in K.order if K.procs.get(p) == "alive"]
    if K.clock_reads > k and pids[die] in live:
        return False                      # (the scheduled death happened only if the run got as far as clock read k)
    return set(arb.WORKERS) == set(live) and not K.zombies()


def latency_twin(n: int, who: int, h: int, stubborn: bool) -> bool:
    """
    pre: 1 <= n <= CASE["n"] and 0 <= who < n
    pre: 0 <= h <= 30
    post: __return__
    """
    if not (n == 2 and who == 1 and h == 7):
        return True
    return not latency(n, who, h, stubborn)


# ---- 2b. the worker side of an abort: SIGABRT arriving while a request is being handled -----------------------------------------
def abort_in_request(stage: int, nconn: int) -> bool:
    """
    pre: 0 <= stage <= 2 and 1 <= nconn <= 3
    post: __return__
    """
    # the real Worker.handle_abort runs (as a signal handler does) inside the frame that is executing when SIGABRT
    # arrives: in the application, or in the worker's own send.  The worker must not go back to serving: it either leaves
    # through SystemExit or its loop ends before another connection is accepted ("aborted ... and replaced").
    from engine.stubs.recsock import RecSock
    stage, nconn = pick(stage, 0, 2), pick(nconn, 1, 3)
    REQ = b"GET /a HTTP/1.1\r\nHost: h\r\n\r\n"
    calls = []
    aborted = []

    def abort():
        if not aborted:
            aborted.append(1)
            w.handle_abort(signal.SIGABRT, None)

    def app(environ, start_response):
        calls.append(1)
        if stage == 0:
            abort()
        start_response("200 OK", [("Content-Length", "2")])
        if stage == 1:
            abort()
        return [b"ok"]
    cfg = W.make_cfg()
    w = W.sync_worker(cfg, app)
    clients = [RecSock([REQ]) for _ in range(nconn)]
    if stage == 2:
        clients[0].hooks = {"send": lambda s_: abort()}
    pending = list(clients)
    accepts_after = [0]

    class Listener(RecSock):
        def accept(self_):
            if aborted:
                accepts_after[0] += 1
            if not pending:
                raise OSError(errno.EAGAIN, "again")
            return pending.pop(0), ("10.0.0.9", 1000)
    lst = Listener()
    w.sockets = [lst]
    w.PIPE = [90, 91]
    w.wait_fds = [lst, 90]
    w.tmp = SimpleNamespace(notify=lambda: None)
    w.timeout = 1.0
    selects = [0]

    def select(r, w_, x, timeout):
        selects[0] += 1
        if selects[0] > 4:
            raise KS.LoopBudget()
        return ([lst], [], [])
    saved = S.select, S.os, S.util
    S.select = ns("S.select", select=select)
    S.os = ns("S.os", getppid=lambda: 1, read=lambda fd, n: b"")
    S.util = ns("S.util", close_on_exec=lambda fd: None, close=saved[2].close, reraise=saved[2].reraise)
    left = None
    try:
        try:
            w.run_for_one(w.timeout)
            left = "loop ended"
        except SystemExit:
            left = "exit"
        except KS.LoopBudget:
            left = None
    finally:
        S.select, S.os, S.util = saved
    if not aborted:
        return True
    if left is None:
        return False                       # still in its accept loop after having been aborted
    return len(calls) == 1 and accepts_after[0] == 0


# ---- 3. worker side: heartbeat gaps -----------------------------------------------------------------------------------
class Assume(Exception):
    pass


def _sync_worker(timeout_s, notes, clock, nlisteners, steps):
    w = object.__new__(S.SyncWorker)
    w.cfg = SimpleNamespace(is_ssl=False)
    w.log = KS.NullLog()
    w.alive = True
    w.nr = 0
    w.ppid = 1
    w.timeout = timeout_s / 2.0
    w.PIPE = [90, 91]
    w.tmp = SimpleNamespace(notify=lambda: notes.append(clock[0]))
    T = timeout_s * 1000

    class Listener:
        def __init__(self, i):
            self.i = i

        def accept(self_):
            if not steps:
                w.alive = False
                raise OSError(errno.EAGAIN, "again")
            e = steps.pop(0)
            if e < 1000:
                raise OSError(errno.EAGAIN, "again")
            return (object(), ("c", 1))

        def setblocking(self_, f):
            pass
    w.sockets = [Listener(i) for i in range(nlisteners)]
    w.wait_fds = w.sockets + [90]

    def handle(listener, client, addr):          # a request lasting d < timeout
        d = steps.pop(0) if steps else 0
        if d >= T:
            raise Assume()
        clock[0] += d
    w.handle = handle
    w.accept = lambda l: handle(l, *l.accept())

    def select(r, w_, x, t):                     # returns within its timeout
        if not steps:
            w.alive = False
            return ([], [], [])
        d = steps.pop(0)
        if d > int(t * 1000):
            raise Assume()
        clock[0] += d
        if nlisteners > 1 and d % 2 == 1:
            return (list(w.sockets), [], [])     # all listeners ready at once
        return ([], [], [])
    return w, select


def sync_gaps(tape: List[int]) -> bool:
    """
    pre: 1 <= len(tape) <= CASE["tape"]
    pre: all(0 <= e <= CASE["timeout"] * 1000 + 1 for e in tape)
    pre: kf_ok("C11.sync_gaps", listeners=CASE["listeners"], tape=tape)
    post: __return__
    """
    timeout_s = CASE["timeout"]
    T = timeout_s * 1000
    clock = [0]
    notes = []
    w, select = _sync_worker(timeout_s, notes, clock, CASE["listeners"], list(tape))
    saved = S.select, S.os
    S.select = ns("S.select", select=select)
    S.os = ns("S.os", getppid=lambda: 1, read=lambda fd, n: b"")
    try:
        w.run()
    except Assume:
        return True
    finally:
        S.select, S.os = saved
    notes.append(clock[0])                   # the loop has ended: account for the last stretch as well
    for a, b in zip(notes, notes[1:]):
        if b - a > T:
            return False                     # the arbiter kills when now - last_update > timeout
    return True


DUR = [0, 999, 1000, 2000, 3000, 3999]


def sync_gaps_real(i1: int, i2: int, i3: int, i4: int, i5: int) -> bool:
    """
    pre: all(0 <= i <= 5 for i in (i1, i2, i3, i4, i5))
    pre: i1 == CASE["i1"]
    post: __return__
    """
    # as sync_gaps, with the real WorkerTmp.notify()/last_update() between the loop and the arbiter's test
    # `monotonic() - last_update() <= timeout`, evaluated whenever virtual time has advanced
    timeout_s = 4
    T = timeout_s * 1000
    tape = [DUR[CASE["i1"]]] + [DUR[pick(i, 0, 5)] for i in (i2, i3, i4, i5)[:CASE["tape"] - 1]]
    clock = [0]
    notes = []
    w, select = _sync_worker(timeout_s, notes, clock, CASE["listeners"], list(tape))
    mtime = {7: 0.0}
    killed = []

    def check():
        if clock[0] / 1000.0 - tmp.last_update() > timeout_s:
            killed.append(clock[0])
    inner_handle = w.handle

    def handle(listener, client, addr):
        inner_handle(listener, client, addr)
        check()
    w.handle = handle
    w.accept = lambda l: handle(l, *l.accept())

    def select2(r, w_, x, t):
        res = select(r, w_, x, t)
        check()
        return res
    saved = S.select, S.os, WT.os, getattr(WT, "time", None), WT.tempfile, WT.util
    S.select = ns("S.select", select=select2)
    S.os = ns("S.os", getppid=lambda: 1, read=lambda fd, n: b"")
    WT.os = ns("WT.os", utime=lambda fd, times=None: mtime.__setitem__(fd, times[1] if times else 1.7e9 + clock[0] / 1000.0),
               fstat=lambda fd: SimpleNamespace(st_mtime=mtime[fd]), umask=lambda m: 0o22, geteuid=lambda: 0,
               getegid=lambda: 0, close=lambda fd: None, path=SimpleNamespace(isdir=lambda p: True),
               fdopen=lambda fd, m, b: SimpleNamespace(fileno=lambda: fd, close=lambda: None))
    WT.time = ns("WT.time", monotonic=lambda: clock[0] / 1000.0)
    WT.tempfile = ns("WT.tempfile", mkstemp=lambda prefix=None, dir=None: (7, "/tmp/wg"))
    WT.util = ns("WT.util", chown=lambda *a: None, unlink=lambda n: None)
    try:
        tmp = WT.WorkerTmp(SimpleNamespace(umask=0, worker_tmp_dir=None, uid=0, gid=0))     # the real constructor
        w.tmp = tmp
        w.run()
        check()
    except Assume:
        return True
    finally:
        S.select, S.os, WT.os, WT.time, WT.tempfile, WT.util = saved
    return not killed


# ---- 3b. heartbeat writer and heartbeat reader against two clocks ----------------------------------------------------------------
def heartbeat_clock(step_at: int, step: int, hang_at: int, T: int) -> bool:
    """
    pre: 0 <= step_at <= 12 and 0 <= step <= 2 and 0 <= hang_at <= 12 and 2 <= T <= 4
    post: __return__
    """
    # the real WorkerTmp.__init__/notify()/last_update() (worker side) and the real Arbiter.murder_workers() (master side)
    # over one simulated file, with a MONOTONIC clock that advances 1 s per tick and a WALL clock = monotonic + offset whose
    # offset jumps by +1 h / -1 h at tick `step_at` (NTP step, VM resume, `date -s`).  The worker heartbeats once per tick
    # until tick `hang_at` (13 = never hangs).  A healthy worker is never signalled; a hung one gets SIGABRT no later than
    # timeout + 1 tick after its last heartbeat, and never earlier than timeout.
    step_at, step, hang_at, T = pick(step_at, 0, 12), pick(step, 0, 2), pick(hang_at, 0, 12), pick(T, 2, 4)
    jump = [0, 3600, -3600][step]
    never = hang_at >= 12
    mono = [100]
    offset = [1_700_000_000]
    mtime = {7: None}

    def wall():
        return mono[0] + offset[0]

    def utime(fd, times=None, **kw):
        if times is None:
            times = kw.get("ns") or (wall(), wall())     # the kernel stamps wall-clock "now"
        mtime[fd] = times[1]
    saved_wt = {k: getattr(WT, k, None) for k in ("os", "time", "tempfile", "util")}
    WT.os = ns("WT.os", utime=utime, fstat=lambda fd: SimpleNamespace(st_mtime=mtime[fd]), umask=lambda m: 0o22,
               geteuid=lambda: 0, getegid=lambda: 0, close=lambda fd: None, path=SimpleNamespace(isdir=lambda p: True),
               fdopen=lambda fd, m, b: SimpleNamespace(fileno=lambda: fd, close=lambda: None))
    WT.time = ns("WT.time", monotonic=lambda: mono[0], time=wall)
    WT.tempfile = ns("WT.tempfile", mkstemp=lambda prefix=None, dir=None: (mtime.__setitem__(7, wall()) or 7, "/tmp/wg"))
    WT.util = ns("WT.util", chown=lambda *a: None, unlink=lambda n: None)
    K = KS.Kernel()
    arb = mk_arbiter(K, 0, timeout=T)
    sent = []
    arb.kill_worker = lambda pid, sig: sent.append((int(sig), mono[0]))
    saved_time = A.time
    A.time = ns("A.time", monotonic=lambda: mono[0], time=wall, sleep=lambda s_: None)
    try:
        tmp = WT.WorkerTmp(SimpleNamespace(umask=0, worker_tmp_dir=None, uid=0, gid=0))
        arb.WORKERS = {55: SimpleNamespace(tmp=tmp, aborted=False, age=1, pid=55)}
        last_beat = mono[0]
        for tick in range(13 + T + 2):
            if tick == step_at:
                offset[0] += jump
            if never or tick < hang_at:
                tmp.notify()
                last_beat = mono[0]
            arb.murder_workers()
            mono[0] += 1
    finally:
        A.time = saved_time
        for k, v in saved_wt.items():
            if v is None:
                if hasattr(WT, k):
                    delattr(WT, k)
            else:
                setattr(WT, k, v)
    if never:
        return not sent
    if not sent or sent[0][0] != int(signal.SIGABRT):
        return False
    t_abrt = sent[0][1]
    return last_beat + T < t_abrt <= last_beat + T + 1


def sync_gaps_twin(tape: List[int]) -> bool:
    """
    pre: 1 <= len(tape) <= CASE["tape"]
    pre: all(0 <= e <= CASE["timeout"] * 1000 + 1 for e in tape)
    post: __return__
    """
    timeout_s = CASE["timeout"]
    clock = [0]
    notes = []
    w, select = _sync_worker(timeout_s, notes, clock, CASE["listeners"], list(tape))
    saved = S.select, S.os
    S.select = ns("S.select", select=select)
    S.os = ns("S.os", getppid=lambda: 1, read=lambda fd, n: b"")
    try:
        w.run()
    except Assume:
        return True
    finally:
        S.select, S.os = saved
    # witness: a request nearly as long as the timeout was served between two heartbeats
    return not any(b - a >= timeout_s * 1000 - 1 for a, b in zip(notes, notes[1:]))


def gthread_gaps(tape: List[int]) -> bool:
    """
    pre: 1 <= len(tape) <= CASE["tape"]
    pre: all(0 <= e <= 1001 for e in tape)
    post: __return__
    """
    timeout_s = CASE["timeout"]
    T = timeout_s * 1000
    clock = [0]
    notes = []
    steps = list(tape)
    cfg = W.make_cfg(keepalive=2, threads=1, worker_connections=CASE["wc"])
    w = W.thread_worker(cfg, None)
    w._keep.clear()
    w.nr_conns = CASE["nr_conns"]          # at / below the connection limit: both branches of the loop
    w.tmp = SimpleNamespace(notify=lambda: notes.append(clock[0]))
    w.sockets = []
    w.tpool = SimpleNamespace(shutdown=lambda wait=True: None)

    class Poller(W.Poller):
        def select(self_, timeout):
            if not steps:
                w.alive = False
                return []
            d = steps.pop(0)
            if d > int(timeout * 1000):
                raise Assume()
            clock[0] += d
            return []
    w.poller = Poller()

    def fwait(fs, timeout=None, return_when=None):
        if timeout:
            if not steps:
                w.alive = False
            else:
                d = steps.pop(0)
                if d > int(timeout * 1000):
                    raise Assume()
                clock[0] += d
        return SimpleNamespace(done=[], not_done=list(fs))
    saved = G.futures, G.os
    G.futures = ns("G.futures", wait=fwait, FIRST_COMPLETED="FIRST_COMPLETED")
    G.os = ns("G.os", getppid=lambda: 1)
    try:
        w.run()
    except Assume:
        return True
    finally:
        G.futures, G.os = saved
    notes.append(clock[0])
    for a, b in zip(notes, notes[1:]):
        if b - a > T:
            return False
    return True


OBLIGATIONS = [
    Ob("C11.murder", "murder", cases=[{"k": k} for k in (1, 2, 3)], timeout=600,
       bound="1..3 workers, heartbeat instants 0..100, clock 0..100, timeout 0..40 (symbolic ints), aborted flags"),
    Ob("C11.murder.twin", "murder_twin", cases=[{"k": 2}], expect="refute", timeout=120),
    Ob("C11.boot_hang", "boot_hang", timeout=600,
       bound="real WorkerTmp + murder_workers: wall clock 0..2e9 s, monotonic clock 0..1e6 s at creation, timeout 1..60 s, "
             "silent for timeout+1..5 s, before or after the first heartbeat (all symbolic ints)"),
    Ob("C11.latency", "latency", cases={"quick": [{"n": 2, "timeout": 2}, {"n": 2, "timeout": 2, "noisy": True}],
                                        "thorough": [{"n": 3, "timeout": 2}, {"n": 2, "timeout": 3}, {"n": 3, "timeout": 2, "noisy": True}]},
       timeout=900, bound="run() loop, 1..2 (thorough 3) workers, one stops heartbeating at a symbolic instant 0..3 s, timeout 2 s (3 s)"),
    Ob("C11.murder_reap_race", "murder_reap_race", cases={"quick": [{"n": 2, "timeout": 2, "kmax": 16}], "thorough": [{"n": 3, "timeout": 2, "kmax": 24}]},
       timeout={"quick": 900, "thorough": 2400}, bound="2 (thorough 3) workers, one hangs at 0..1 s, another dies at any of the master's first 17 (25) clock reads "
                          "(SIGCHLD handled right there), timeout 2 s"),
    Ob("C11.abort_in_request", "abort_in_request", timeout=300,
       bound="sync worker, 1..3 queued connections, the real handle_abort invoked inside the application (before / after "
             "start_response) or inside the first send"),
    Ob("C11.latency.twin", "latency_twin", cases=[{"n": 2, "timeout": 2}], expect="refute", timeout=300),
    Ob("C11.latency_kill", "latency_kill", cases={"quick": [{"n": 2, "timeout": 2}], "thorough": [{"n": 3, "timeout": 2}]},
       timeout=900, bound="as latency, the hung worker also ignores SIGABRT: KILL on the next scan, reaped, replaced"),
    Ob("C11.sync_gaps", "sync_gaps",
       cases={"quick": [{"timeout": 4, "listeners": 1, "tape": 4}, {"timeout": 1, "listeners": 1, "tape": 3},
                        {"timeout": 4, "listeners": 2, "tape": 5}],
              "thorough": [{"timeout": 4, "listeners": 1, "tape": 6}, {"timeout": 1, "listeners": 1, "tape": 5},
                           {"timeout": 30, "listeners": 1, "tape": 5}, {"timeout": 4, "listeners": 2, "tape": 7}]},
       timeout={"quick": 600, "thorough": 2400},
       bound="SyncWorker.run with 1 or 2 listeners, timeout in {1,4} s (thorough +30), tape of <=4 (6) events: accept-or-EAGAIN, "
             "request duration < timeout (ms, symbolic), select returning after <= its timeout (ms, symbolic)"),
    Ob("C11.sync_gaps_real", "sync_gaps_real",
       cases={"quick": [{"listeners": 1, "tape": 4, "i1": i} for i in range(6)] + [{"listeners": 2, "tape": 5, "i1": i} for i in range(6)],
              "thorough": [{"listeners": l, "tape": 5, "i1": i} for l in (1, 2) for i in range(6)]},
       timeout=1200, bound="as sync_gaps with the real WorkerTmp.notify/last_update and the arbiter's own test; waits / request "
                           "durations from {0,999,1000,2000,3000,3999} ms, timeout 4 s, tape 4-5"),
    Ob("C11.heartbeat_clock", "heartbeat_clock", timeout=600,
       bound="real WorkerTmp + real murder_workers over one simulated file, monotonic clock in 1 s ticks, wall clock stepping by 0 / +1 h / "
             "-1 h at one of 13 ticks, worker hanging at one of 12 ticks or never, timeout 2..4 s"),
    Ob("C11.sync_gaps.twin", "sync_gaps_twin", cases=[{"timeout": 4, "listeners": 1, "tape": 4}], expect="refute", timeout=120),
    Ob("C11.gthread_gaps", "gthread_gaps",
       cases=[{"timeout": t, "tape": 4, "wc": 2, "nr_conns": nc} for t in (1, 2) for nc in (0, 2)],
       timeout=600, bound="ThreadWorker.run, timeout in {1,2} s, below / at worker_connections, <=4 selector / futures.wait "
                          "returns after a symbolic time <= their 1.0 s argument"),
]

"""C02 - responses on the wire are correctly framed; keep-alive only when safe.

  A  Response framing        Response.start_response/process_headers/is_chunked/default_headers/send_headers/
                             write/sendfile/write_file/close + util.write/write_chunk, driven directly with a stub
                             request; wire bytes judged by the independent strict reader oracles/http_response.py
  B  keep / close decision   the real worker handle()/handle_request() of sync, gthread and the async base with
                             the real parser, wsgi.create and Response on a recording socket
  C  request-side rule       Message.should_close on a symbolic Connection value
"""
from types import SimpleNamespace

from engine.harness_api import Ob, setup, kf_ok, pick
setup(shim=False)

from gunicorn.http import wsgi  # noqa: E402
from gunicorn.http.message import Message  # noqa: E402
from engine.stubs.recsock import FakeFile, RecSock  # noqa: E402
from engine.stubs import workers as W  # noqa: E402
from oracles import http_response as hr  # noqa: E402

W.install_clock()
W.install_fileos()

PROPERTY = "C02"
CASE = {}
KERNELS = [
    "gunicorn.http.wsgi:Response.start_response", "gunicorn.http.wsgi:Response.process_headers",
    "gunicorn.http.wsgi:Response.is_chunked", "gunicorn.http.wsgi:Response.should_close",
    "gunicorn.http.wsgi:Response.default_headers", "gunicorn.http.wsgi:Response.send_headers",
    "gunicorn.http.wsgi:Response.write", "gunicorn.http.wsgi:Response.sendfile",
    "gunicorn.http.wsgi:Response.write_file", "gunicorn.http.wsgi:Response.close",
    "gunicorn.util:write_chunk", "gunicorn.util:write", "gunicorn.http.message:Message.should_close",
    "gunicorn.workers.sync:SyncWorker.handle", "gunicorn.workers.sync:SyncWorker.handle_request",
    "gunicorn.workers.gthread:ThreadWorker.handle", "gunicorn.workers.gthread:ThreadWorker.handle_request",
    "gunicorn.workers.gthread:ThreadWorker.finish_request",
    "gunicorn.workers.base_async:AsyncWorker.handle", "gunicorn.workers.base_async:AsyncWorker.handle_request",
    "gunicorn.http.wsgi:create",
]
STUBS = ["client socket -> RecSock (records sendall/send/sendfile/close; recv from a script)",
         "util.http_date / datetime.now -> constants", "os.lseek/os.fstat inside gunicorn.http.wsgi -> FakeFile table",
         "gthread: scripted selector + synchronous executor (engine/stubs/workers.py)", "logger -> counting stub"]
ASSUMPTIONS = [
    "well-behaved application: status in {200,204,304,404}; for HEAD / 204 / 304 it produces no body bytes; a "
    "declared Content-Length does not exceed the bytes it produces (PEP 3333); header names/values valid",
    "body content is concrete (framing code never branches on content); lengths, counts, flags are symbolic",
]
OUTSIDE = ["SSL", "real sendfile(2)", "gevent/eventlet socket objects and worker loops",
           "more than 3 body chunks / chunks longer than 2 bytes / Content-Length > 4"]

STATUS = ["200 OK", "204 No Content", "304 Not Modified", "404 Not Found", "205 Reset Content", "206 Partial Content",
          "303 See Other", "201 Created", "500 Internal Server Error"]


class Req:
    def __init__(self, version, method, close):
        self.version = version
        self.method = method
        self._close = close

    def should_close(self):
        return self._close


def produce(resp, mode, chunks, status, headers, off=0):
    """what handle_request does with the application's result (sync.py:177-184), for each production mode"""
    if mode == "write":
        w = resp.start_response(status, headers)
        for c in chunks:
            w(c)
        respiter = []
    elif mode in ("file", "filenofd"):
        resp.start_response(status, headers)
        f = FakeFile(b"zz"[:off] + b"".join(chunks), pos=off, with_fileno=(mode == "file"))
        W.FILEOS.files[99] = f
        respiter = wsgi.FileWrapper(f)
    elif mode == "mixed":
        w = resp.start_response(status, headers)
        w(chunks[0])
        respiter = chunks[1:]
    else:
        resp.start_response(status, headers)
        respiter = chunks
    if isinstance(respiter, wsgi.FileWrapper):
        resp.write_file(respiter)
    else:
        for item in respiter:
            resp.write(item)
    resp.close()


def _run_framing(req_close, cl, n1, n2, n3, off=0):
    mode, v11, head, si = CASE["mode"], CASE["v11"], CASE["head"], CASE["si"]
    s = RecSock()
    req = Req((1, 1) if v11 else (1, 0), "HEAD" if head else "GET", req_close)
    cfg = SimpleNamespace(is_ssl=False, sendfile=None)
    resp = wsgi.Response(req, s, cfg)
    hdrs = [("Content-Type", "text/plain")]
    if cl >= 0:
        hdrs.append(("Content-Length", str(cl)))
    chunks = [b"ab"[:n1], b"cd"[:n2], b"ef"[:n3]]
    produce(resp, mode, chunks, STATUS[si], hdrs, off)
    return s, resp, b"".join(chunks)


def framing(req_close: bool, cl: int, n1: int, n2: int, n3: int, off: int) -> bool:
    """
    pre: 0 <= off <= CASE.get("maxoff", 0)
    pre: -1 <= cl <= CASE["maxcl"]
    pre: 0 <= n1 <= CASE["maxn"] and 0 <= n2 <= CASE["maxn"] and 0 <= n3 <= CASE["maxn3"]
    pre: kf_ok("C02.framing", mode=CASE["mode"], v11=CASE["v11"], head=CASE["head"], si=CASE["si"], cl=cl, total=n1 + n2 + n3)
    post: __return__
    """
    head, si = CASE["head"], CASE["si"]
    nobody = head or si in (1, 2)
    cl = pick(cl, -1, CASE["maxcl"])
    n1 = pick(n1, 0, CASE["maxn"])
    n2 = pick(n2, 0, CASE["maxn"])
    n3 = pick(n3, 0, CASE["maxn3"])
    off = pick(off, 0, CASE.get("maxoff", 0))      # file wrapper: the file object's current position
    if not nobody and cl > n1 + n2 + n3:
        return True          # assumption: the application delivers at least the Content-Length it declared
    s, resp, app = _run_framing(req_close, cl, n1, n2, n3, off)
    raw = s.wire()
    try:
        rs = hr.parse_stream(raw, [head])
    except hr.Bad:
        return False
    if len(rs) != 1 or rs[0]["end"] != len(raw):
        return False
    r = rs[0]
    want = app if cl < 0 else app[:cl]
    if nobody:
        want = b""
    if r["body"] != want or not r["complete"]:
        return False
    if r["code"] != int(STATUS[si][:3]):
        return False
    # keep-alive announced only when self-delimiting and the client did not ask to close
    keep = not resp.should_close()
    announced = r["connection"] == [b"keep-alive"]
    if announced != keep:
        return False
    if keep and (not r["self_delimiting"] or req_close):
        return False
    return True


def framing_twin(req_close: bool, cl: int, n1: int, n2: int, n3: int, off: int) -> bool:
    """
    pre: 0 <= off <= CASE.get("maxoff", 0)
    pre: -1 <= cl <= CASE["maxcl"]
    pre: 0 <= n1 <= CASE["maxn"] and 0 <= n2 <= CASE["maxn"] and 0 <= n3 <= CASE["maxn3"]
    post: __return__
    """
    # witness: a chunked (1.1) / close-delimited (1.0) response with a 2-piece body and one empty piece
    if not (cl < 0 and n1 == 1 and n2 == 0 and n3 == 1):
        return True
    s, resp, app = _run_framing(req_close, cl, n1, n2, n3)
    return len(s.wire()) == 0


# ---- B. keep / close decision through the real workers ------------------------------------------------
CONN = [None, "close", "keep-alive", "foo"]


def keepalive(v11: bool, ci: int, head: bool, si: int, cl: int) -> bool:
    """
    pre: v11 == CASE["v11"]
    pre: 0 <= ci <= 3 and 0 <= si <= 1 and cl in (-1, 2)
    post: __return__
    """
    kind = CASE["kind"]
    si = [0, 1, 4][pick(si, 0, 1) if not CASE.get("s205") else 2]
    n = 0 if (head or si == 1) else 2
    calls = []

    def app(environ, start_response):
        calls.append(1)
        hdrs = [("Content-Type", "text/plain")]
        if cl >= 0:
            hdrs.append(("Content-Length", str(cl)))
        start_response(STATUS[si], hdrs)
        return [b"xy"[:n]]
    cfg = W.make_cfg(keepalive=CASE["keepalive"])
    mk = {"sync": W.sync_worker, "gthread": W.thread_worker, "async": W.async_worker}[kind]
    w = mk(cfg, app)
    reqline = ("HEAD" if head else "GET") + " /p HTTP/" + ("1.1" if v11 else "1.0") + "\r\n"
    hdr = "Host: h\r\n" + ("Connection: %s\r\n" % CONN[ci] if CONN[ci] else "")
    c = RecSock([(reqline + hdr + "\r\n").encode()])
    if kind == "gthread":
        dispatches = W.gthread_serve(w, c)
        kept = dispatches > 1
    else:
        W.run_connection(kind, w, c)
        kept = c.recv_after_send > 0
    raw = c.wire()
    try:
        rs = hr.parse_stream(raw, [head])
    except hr.Bad:
        return False
    if len(calls) != 1 or len(rs) != 1 or rs[0]["end"] != len(raw) or c.closed < 1:
        return False
    r = rs[0]
    if not r["complete"]:
        return False
    announced = r["connection"] == [b"keep-alive"]
    client_close = (CONN[ci] == "close") or (not v11 and (CONN[ci] or "").lower() != "keep-alive")
    if kept and (not r["self_delimiting"] or client_close or not announced or not CASE["keepalive"]):
        return False
    if announced and not kept:
        return False            # server promised keep-alive and then closed: not "delimited consistently"
    return True


def keepalive_twin(v11: bool, ci: int, head: bool, si: int, cl: int) -> bool:
    """
    pre: v11 == CASE["v11"]
    pre: 0 <= ci <= 3 and 0 <= si <= 1 and cl in (-1, 2)
    post: __return__
    """
    kind = CASE["kind"]

    def app(environ, start_response):
        hdrs = [("Content-Type", "text/plain")]
        if cl >= 0:
            hdrs.append(("Content-Length", str(cl)))
        start_response(STATUS[si], hdrs)
        return [b"xy"[:0 if (head or si == 1) else 2]]
    cfg = W.make_cfg(keepalive=CASE["keepalive"])
    mk = {"sync": W.sync_worker, "gthread": W.thread_worker, "async": W.async_worker}[kind]
    w = mk(cfg, app)
    reqline = ("HEAD" if head else "GET") + " /p HTTP/" + ("1.1" if v11 else "1.0") + "\r\n"
    hdr = "Host: h\r\n" + ("Connection: %s\r\n" % CONN[ci] if CONN[ci] else "")
    c = RecSock([(reqline + hdr + "\r\n").encode()])
    if kind == "gthread":
        return not (W.gthread_serve(w, c) > 1)
    W.run_connection(kind, w, c)
    return not (c.recv_after_send > 0)


# ---- C. Message.should_close on a symbolic Connection value ------------------------------------------
def gthread_second(cl: int, n1: int, n2: int, nwait: int) -> bool:
    """
    pre: cl in (-1, 0, 1, 2) and 0 <= n1 <= 2 and 0 <= n2 <= 2 and 0 <= nwait <= 1
    post: __return__
    """
    # two requests on one kept-alive gthread connection (the connection goes through the poller - non-blocking - in
    # between): both responses are complete and well framed, and every byte was sent on a blocking socket (a sendall() on
    # a non-blocking socket may stop short, which would cut the response)
    from engine.stubs.recsock import WAIT
    cl, n1, n2, nwait = pick(cl, -1, 2), pick(n1, 0, 2), pick(n2, 0, 2), pick(nwait, 0, 1)
    calls = []

    def app(environ, start_response):
        calls.append(environ["RAW_URI"])
        hdrs = [("Content-Type", "text/plain")]
        if cl >= 0:
            hdrs.append(("Content-Length", str(cl)))
        start_response("200 OK", hdrs)
        return [b"ab"[:n1], b"cd"[:n2]]
    cfg = W.make_cfg(keepalive=2, threads=2, worker_connections=4)
    w = W.thread_worker(cfg, app)
    w._keep.clear()
    r1 = b"GET /one HTTP/1.1\r\nHost: h\r\n\r\n"
    r2 = b"GET /two HTTP/1.1\r\nHost: h\r\n\r\n"
    c = RecSock([r1, r2[:9]] + [WAIT] * nwait + [r2[9:]])
    W.gthread_serve(w, c, max_dispatch=5)
    body = (b"ab"[:n1] + b"cd"[:n2])
    want = body if cl < 0 else body[:cl]
    if cl > len(body):
        return True            # declared more than delivered: not a well-behaved application, outside the property
    try:
        rs = hr.parse_stream(c.wire(), [False, False])
    except hr.Bad:
        return False
    if calls != ["/one", "/two"] or len(rs) != 2 or c.closed < 1:
        return False
    for r in rs:
        if not r["complete"] or r["body"] != want:
            return False
    return all(b is True or b == 1 for b in c.blocking_at_send)


def app_error(kind: int, stage: int, v11: bool, wk: int) -> bool:
    """
    pre: 0 <= kind <= 2 and 0 <= stage <= 3 and 0 <= wk <= 2
    post: __return__
    """
    # an application that fails part-way is not "well-behaved", but what the server puts on the wire must still be at most
    # ONE response: once a response head has gone out nothing but (part of) its body may follow before the close
    import errno as _errno
    kind, stage, wk = pick(kind, 0, 2), pick(stage, 0, 3), pick(wk, 0, 2)
    exc = [OSError(_errno.ENOENT, "no such file"), ValueError("boom"), OSError(_errno.EPIPE, "pipe")][kind]

    def app(environ, start_response):
        if stage == 0:
            raise exc
        start_response("200 OK", [("Content-Length", "4")])
        if stage == 1:
            raise exc

        def gen():
            yield b"ab" if stage == 2 else b""          # stage 3: the head is flushed by an empty piece, no body byte yet
            raise exc
        return gen()
    kindname = ["sync", "gthread", "async"][wk]
    cfg = W.make_cfg(keepalive=2)
    w = {"sync": W.sync_worker, "gthread": W.thread_worker, "async": W.async_worker}[kindname](cfg, app)
    reqline = "GET /p HTTP/" + ("1.1" if v11 else "1.0") + "\r\nHost: h\r\n\r\n"
    c = RecSock([reqline.encode()])
    if kindname == "gthread":
        W.gthread_serve(w, c)
    else:
        W.run_connection(kindname, w, c)
    raw = c.wire()
    if raw.count(b"HTTP/1.") > 1:
        return False                              # a second status line after the first response head
    if c.closed < 1:
        return False
    if stage == 2:
        # the 200 head went out with the first piece; only that may be on the wire
        return raw.startswith(b"HTTP/1.") and raw.endswith(b"ab") and b" 200 " in raw[:16]
    if stage == 3 and raw:
        return raw.startswith(b"HTTP/1.") and raw.count(b"\r\n\r\n") == 1 and raw.endswith(b"\r\n\r\n")
    return True


def conn_value_ok(v):
    for ch in v:
        c = ord(ch)
        if c > 255 or c == 0 or c == 10 or c == 13:
            return False
    return True


def req_should_close(v11: bool, has: bool, p1: str, p2: str) -> bool:
    """
    pre: len(p1) <= CASE["pad"] and len(p2) <= CASE["pad"]
    pre: conn_value_ok(p1) and conn_value_ok(p2)
    post: __return__
    """
    m = object.__new__(Message)
    m.must_close = False
    m.version = (1, 1) if v11 else (1, 0)
    core = CASE["core"]
    value = p1 + core + p2
    m.headers = [("HOST", "h")] + ([("CONNECTION", value)] if has else [])
    got = m.should_close()
    # reference: persistent iff (1.1 and no close option) or (1.0 and keep-alive option); an exact token
    # match modulo case and OWS decides; anything else falls back to the version default.
    lo, hi = 0, len(value)
    while lo < hi and value[lo] in " \t":
        lo += 1
    while hi > lo and value[hi - 1] in " \t":
        hi -= 1
    tok = value[lo:hi]
    is_close = has and len(tok) == 5 and tok.lower() == "close"
    is_ka = has and len(tok) == 10 and tok.lower() == "keep-alive"
    if is_close:
        return got is True
    if is_ka:
        return got is False
    return got == (not v11)


def req_should_close_twin(v11: bool, has: bool, p1: str, p2: str) -> bool:
    """
    pre: len(p1) <= CASE["pad"] and len(p2) <= CASE["pad"]
    pre: conn_value_ok(p1) and conn_value_ok(p2)
    post: __return__
    """
    m = object.__new__(Message)
    m.must_close = False
    m.version = (1, 1) if v11 else (1, 0)
    m.headers = [("CONNECTION", p1 + CASE["core"] + p2)] if has else []
    return m.should_close() == (not v11)        # witness: header overrides the version default


def _framing_cases(maxn, maxn3, maxcl):
    out = []
    for m in ("iter", "write", "file", "filenofd", "mixed"):
        for v in (True, False):
            for head, si in ((False, 0), (False, 3), (False, 1), (False, 2), (True, 0), (False, 4), (False, 5), (False, 6),
                             (False, 7), (False, 8), (True, 4)):
                nobody = head or si in (1, 2)
                small = si >= 4                      # the extra status codes: one 2-chunk body is enough
                out.append({"mode": m, "v11": v, "head": head, "si": si, "maxn": 0 if nobody else (1 if small else maxn),
                            "maxn3": 0 if nobody else (0 if small else maxn3), "maxcl": 1 if small else maxcl,
                            "maxoff": 2 if (m in ("file", "filenofd") and not small) else 0})
    return out


_TW = {"maxn": 2, "maxn3": 1, "maxcl": 3, "head": False, "si": 0, "maxoff": 0}

OBLIGATIONS = [
    Ob("C02.framing", "framing", cases={"quick": _framing_cases(2, 1, 3), "thorough": _framing_cases(2, 2, 5)},
       timeout={"quick": 400, "thorough": 1800},
       bound="HTTP/1.0|1.1 x GET|HEAD x client-close flag x status{200,204,304,404 full; 205,206,303,201,500 with a "
             "1-2 byte body} x Content-Length{none,0..3} x 3 chunks of length 0..2,0..2,0..1 (thorough 0..2, CL..5) x mode{iterable, "
             "write(), file wrapper with/without fileno at file offset 0..2, write()+iterable}"),
    Ob("C02.framing.twin", "framing_twin", cases=[dict(_TW, mode="iter", v11=True), dict(_TW, mode="file", v11=False)],
       expect="refute", timeout=120),
    Ob("C02.keepalive", "keepalive",
       cases=[{"kind": k, "keepalive": ka, "v11": v} for k in ("sync", "gthread", "async") for ka in (0, 2)
              for v in (True, False)] + [{"kind": k, "keepalive": 2, "v11": True, "s205": True} for k in ("gthread", "async")],
       timeout=900,
       bound="real handle() of sync/gthread/async-base x keepalive{0,2} x HTTP/1.0|1.1 x Connection{absent,close,"
             "keep-alive,foo} x GET|HEAD x status{200,204} x Content-Length{none,2}, 2-byte body"),
    Ob("C02.keepalive.twin", "keepalive_twin", cases=[{"kind": "gthread", "keepalive": 2, "v11": True},
                                                      {"kind": "async", "keepalive": 2, "v11": True}],
       expect="refute", timeout=300),
    Ob("C02.app_error", "app_error", timeout=600,
       bound="application raising OSError(ENOENT) / ValueError / OSError(EPIPE) before start_response, after it, after an empty first piece, or after "
             "the first body piece; sync, gthread and async-base workers; HTTP/1.0 and 1.1"),
    Ob("C02.gthread_second", "gthread_second", timeout=600,
       bound="two requests on one kept-alive gthread connection, the second arriving in two segments (with / without an EAGAIN in "
             "between), Content-Length absent / 0..2, two body pieces of 0..2 bytes"),
    Ob("C02.req_should_close", "req_should_close",
       cases={"quick": [{"core": c, "pad": 1} for c in ("close", "keep-alive", "x")],
              "thorough": [{"core": c, "pad": 1} for c in ("close", "keep-alive", "Close", "KEEP-ALIVE", "x", "")]},
       timeout=600, bound="Connection value = pad+core+pad, pads <=1 arbitrary latin-1 char, core in {close,keep-alive,x} "
                          "(thorough + Close, KEEP-ALIVE, '')"),
    Ob("C02.req_should_close.twin", "req_should_close_twin", cases=[{"core": "close", "pad": 0}], expect="refute", timeout=60),
]

"""C09 - application-supplied status and headers cannot split or forge a response.

Kernels: Response.start_response / process_headers / default_headers / send_headers (+ util.is_hoppish).
The response head is judged on the wire (bytes handed to the recording socket): every CR is followed by LF, every
LF preceded by CR, the number of CRLFs equals the server's own lines + one per accepted application header + the
blank line, no NUL; a refused input sends zero bytes; hop-by-hop headers are absent.
"""
from types import SimpleNamespace
from typing import List

from engine.harness_api import Ob, setup, kf_ok, pick
setup(shim=False)

from gunicorn.http import wsgi  # noqa: E402
from gunicorn.http.errors import InvalidHeader, InvalidHeaderName  # noqa: E402
from gunicorn import util  # noqa: E402
from engine.stubs.recsock import RecSock  # noqa: E402
from engine.stubs import workers as W  # noqa: E402

from harness.lex import resp_lex, resp_lex_smt  # noqa: E402,F401  (z3-direct obligation C09.lex_smt)

W.install_clock()

PROPERTY = "C09"
CASE = {}
KERNELS = ["gunicorn.http.wsgi:Response.start_response", "gunicorn.http.wsgi:Response.process_headers",
           "gunicorn.http.wsgi:Response.default_headers", "gunicorn.http.wsgi:Response.send_headers",
           "gunicorn.http.wsgi:Response.is_chunked", "gunicorn.http.wsgi:Response.should_close",
           "gunicorn.util:is_hoppish", "gunicorn.util:to_bytestring"]
STUBS = ["socket -> RecSock", "util.http_date -> constant", "request -> record (version 1.1, GET, keep-alive)"]
ASSUMPTIONS = ["status = 3 digits + SP + symbolic tail (so that the status code parses); one field symbolic at a time "
               "(status tail, header name, header value), the others concrete"]
OUTSIDE = ["fields longer than the bound", "Content-Length values that int() accepts but HTTP does not (e.g. '+5')"]

HOP = ("connection", "keep-alive", "proxy-authenticate", "proxy-authorization", "te", "trailers", "transfer-encoding",
       "upgrade", "server", "date")


class Req:
    version = (1, 1)
    method = "GET"

    def should_close(self):
        return False


REFUSED = (InvalidHeader, InvalidHeaderName, TypeError, ValueError, UnicodeEncodeError, AssertionError, IndexError)   # IndexError: status of blanks only


DATE = "Thu, 01 Jan 2026 00:00:00 GMT"


def no_ctl(text):
    for ch in text:
        c = ord(ch)
        if c == 0 or c == 10 or c == 13 or c > 255:
            return False
    return True


def expected_head(status, app_headers, chunked=True, connection="keep-alive"):
    """the head the client must receive: the server's own lines, one line per accepted application header, blank line.
    Built from the same (possibly symbolic) strings, so the comparison with the wire is one sequence equality."""
    lines = ["HTTP/1.1 " + status, "Server: " + wsgi.SERVER, "Date: " + DATE, "Connection: " + connection]
    if chunked:
        lines.append("Transfer-Encoding: chunked")
    for k, v in app_headers:
        lines.append(k + ": " + v)
    return ("\r\n".join(lines) + "\r\n\r\n").encode("latin-1")


def judge_head(head, resp, status="200 OK", fields=()):
    """`fields` = the symbolic strings that went into the head: they must be free of CR/LF/NUL, and the wire must be
    exactly the expected head (so nothing else can have introduced a line break either)."""
    for f in fields:
        if not no_ctl(f):
            return False
    return head == expected_head(status, resp.headers, chunked=resp.chunked,
                                 connection="close" if resp.should_close() else "keep-alive")


def judge_pieces(resp, status, fields=()):
    """Symbolic obligations judge the pieces send_headers() joins (the join + latin-1 encoding of a ~130 character head
    costs one solver query per character and path): the server's own lines are exactly the expected ones, the status
    line is exactly 'HTTP/1.1 <status>CRLF', every accepted application header and every symbolic field is free of
    CR/LF/NUL and of characters above 0xFF.  The concrete obligations (second_call, C02.*) judge the bytes on the wire."""
    for f in fields:
        if not no_ctl(f):
            return False
    want = ["HTTP/1.1 " + status + "\r\n", "Server: " + wsgi.SERVER + "\r\n", "Date: " + DATE + "\r\n",
            "Connection: " + ("close" if resp.should_close() else "keep-alive") + "\r\n"]
    if resp.chunked:
        want.append("Transfer-Encoding: chunked\r\n")
    if resp.default_headers() != want:
        return False
    for k, v in resp.headers:
        if not no_ctl(k) or not no_ctl(v):
            return False
    return True


def emit(status, headers, second=None, send=True):
    s = RecSock()
    resp = wsgi.Response(Req(), s, SimpleNamespace(is_ssl=False, sendfile=None))
    try:
        resp.start_response(status, headers)
        if second is not None:
            resp.start_response(second[0], second[1], (ValueError, ValueError("x"), None))
        if send:
            resp.send_headers()
    except REFUSED:
        return s, resp, True
    return s, resp, False


def status_tail(tail: str) -> bool:
    """
    pre: len(tail) == CASE["n"]
    pre: kf_ok("C09.status_tail", tail=tail)
    post: __return__
    """
    s, resp, refused = emit("200 " + tail, [("X-A", "b")], send=False)
    if refused:
        return len(s.out) == 0
    return judge_pieces(resp, "200 " + tail, [tail])


CODE_ALPHA = ["2", "0", "\r", "\n", "\x00", " ", "\xa0", "x", "\u0100", "\t"]


def status_code(i1: int, i2: int, i3: int, i4: int, sep: int) -> bool:
    """
    pre: 0 <= i1 < len(CODE_ALPHA) and 0 <= i2 < len(CODE_ALPHA) and 0 <= i3 < len(CODE_ALPHA) and 0 <= i4 < len(CODE_ALPHA)
    pre: 0 <= sep <= 2
    post: __return__
    """
    # the whole status string is written to the wire, so the part before the first space is judged like the rest: a status
    # whose code token carries CR / LF / NUL (or anything else that is not field-value text) is refused before a byte is sent.
    # (A fully symbolic 3-character token through str.split() / int() did not finish in 20 minutes: the solver picks the
    # characters from the ten that matter to those functions instead.)
    k = len(CODE_ALPHA) - 1
    code = "".join(CODE_ALPHA[pick(i, 0, k)] for i in (i1, i2, i3, i4)[:CASE["n"]])
    sep = pick(sep, 0, 2)
    status = code + [" OK", "", " "][sep]
    s, resp, refused = emit(status, [("X-A", "b")], send=True)
    if refused:
        return len(s.out) == 0
    return len(s.out) == 1 and judge_head(s.out[0], resp, status, [code])


def header_name(name: str) -> bool:
    """
    pre: len(name) == CASE["n"]
    post: __return__
    """
    s, resp, refused = emit("200 OK", [(name, "v")], send=False)
    if refused:
        return len(s.out) == 0
    if not judge_pieces(resp, "200 OK", [name]):
        return False
    # accepted: an RFC 9110 token, and not a hop-by-hop name
    for ch in name:
        c = ord(ch)
        if not ((48 <= c <= 57) or (65 <= c <= 90) or (97 <= c <= 122) or c in (
                33, 35, 36, 37, 38, 39, 42, 43, 45, 46, 94, 95, 96, 124, 126)):
            return False
    if len(name) == 0:
        return False
    low = name.lower()
    if low in HOP:
        return len(resp.headers) == 0
    return len(resp.headers) == 1


def header_value(value: str) -> bool:
    """
    pre: len(value) == CASE["n"]
    post: __return__
    """
    s, resp, refused = emit("200 OK", [(CASE["name"], value)], send=False)
    if refused:
        return len(s.out) == 0
    if not judge_pieces(resp, "200 OK", [value]):
        return False
    low = CASE["name"].lower()
    if low in HOP and low != "upgrade":
        return len(resp.headers) == 0          # never forwarded
    return True


def hop_case(mask: int, style: int, value: str) -> bool:
    """
    pre: 0 <= mask < 16 and 0 <= style <= 3
    pre: len(value) <= 1
    post: __return__
    """
    base = CASE["name"]
    mask, style = pick(mask, 0, 15), pick(style, 0, 3)
    # case of the first four letters from the mask; the rest lower / upper / alternating / title-case
    out = []
    for i, ch in enumerate(base):
        if i < 4:
            up = (mask >> i) & 1
        else:
            up = [0, 1, i % 2, 1 if base[i - 1] == "-" else 0][style]
        out.append(ch.upper() if up else ch)
    name = "".join(out)
    s, resp, refused = emit("200 OK", [(name, "x" + value), ("X-Keep", "1")], send=False)
    if refused:
        return len(s.out) == 0
    if not judge_pieces(resp, "200 OK", [value]):
        return False
    return [k for k, _ in resp.headers] == ["X-Keep"]


UP_STATUS = ["200 OK", "101 Switching Protocols", "426 Upgrade Required", "400 Bad Request"]
UP_VALUES = ["websocket", "WebSocket", " websocket ", "h2c", "TLS/1.0", "websocket, h2c", "x"]
UP_NAMES = ["Upgrade", "upgrade", "UPGRADE"]


def upgrade_case(si: int, vi: int, ni: int) -> bool:
    """
    pre: 0 <= si < len(UP_STATUS) and 0 <= vi < len(UP_VALUES) and 0 <= ni < len(UP_NAMES)
    post: __return__
    """
    # Upgrade is hop-by-hop: the one thing gunicorn lets through is the websocket handshake value; whatever the status,
    # any other value set by the application is not forwarded
    si, vi, ni = pick(si, 0, len(UP_STATUS) - 1), pick(vi, 0, len(UP_VALUES) - 1), pick(ni, 0, len(UP_NAMES) - 1)
    status, value = UP_STATUS[si], UP_VALUES[vi]
    s, resp, refused = emit(status, [(UP_NAMES[ni], value), ("X-Keep", "1")], send=True)
    if refused:
        return len(s.out) == 0
    head = s.wire().lower()
    forwarded = b"\r\nupgrade:" in head
    if "websocket" in value.lower():
        return True                 # the websocket handshake is gunicorn's one documented exception (whether it passes is not judged)
    return not forwarded


BAD_NAMES = ["X Y", "X-Trace\r\nSet-Cookie: a=b\r\nX-Pad", "X\x00", "X\xe9", "(x)", "", "X:"]


def twice_case(bi: int, second_exc_info: bool) -> bool:
    """
    pre: 0 <= bi < len(BAD_NAMES)
    post: __return__
    """
    # the same invalid header name offered twice in one process (a second request on the worker, or a retry with exc_info):
    # refused both times, nothing on the wire.  State kept between calls is the subject, so the solver only picks the
    # inputs and the calls run with tracing off (CrossHair reports cross-path state as NotDeterministic otherwise).
    from engine.harness_api import untraced as NoTracing
    bi = pick(bi, 0, len(BAD_NAMES) - 1)
    second_exc_info = bool(pick(int(second_exc_info), 0, 1))
    with NoTracing():
        name = BAD_NAMES[bi]
        for attempt in range(3):
            s, resp, refused = emit("200 OK", [(name, "v")], send=True)
            if not refused or s.out:
                return False
        # and within one response object: refused, then offered again through the exc_info form
        s = RecSock()
        resp = wsgi.Response(Req(), s, SimpleNamespace(is_ssl=False, sendfile=None))
        for attempt in range(2):
            try:
                if attempt and second_exc_info:
                    resp.start_response("200 OK", [(name, "v")], (ValueError, ValueError("x"), None))
                else:
                    resp.start_response("200 OK", [(name, "v")])
                return False
            except REFUSED:
                pass
        return not s.out


def second_call(sent_first: bool, n1: int, n2: int) -> bool:
    """
    pre: 0 <= n1 <= 2 and 0 <= n2 <= 2
    pre: kf_ok("C09.second_call", sent_first=sent_first, n1=n1, n2=n2)
    post: __return__
    """
    n1, n2 = pick(n1, 0, 2), pick(n2, 0, 2)
    first = [("X-A", "1"), ("Content-Length", "5")][:n1]
    second = [("X-B", "2"), ("Content-Length", "3")][:n2]
    s = RecSock()
    resp = wsgi.Response(Req(), s, SimpleNamespace(is_ssl=False, sendfile=None))
    resp.start_response("200 OK", first)
    if sent_first:
        resp.send_headers()
    try:
        resp.start_response("500 Oops", second, (ValueError, ValueError("boom"), None))
    except ValueError:
        # headers already sent: the exception must be re-raised and nothing more written
        return sent_first and len(s.out) == 1
    if sent_first:
        return False
    resp.send_headers()
    if len(s.out) != 1 or not judge_head(s.out[0], resp, "500 Oops"):
        return False
    # ... and so is the framing they imply: a Content-Length of the first call must not survive
    if resp.response_length != (3 if n2 == 2 else None) or resp.chunked != (n2 != 2):
        return False
    # PEP 3333: the second call REPLACES the stored headers: exactly the second call's headers are on the wire
    return [k for k, _ in resp.headers] == [k for k, _ in second] and s.out[0].startswith(b"HTTP/1.1 500 Oops\r\n")


def refused_then_sent(tail: str) -> bool:
    """
    pre: len(tail) == CASE["n"]
    post: __return__
    """
    # an application (or middleware) calls start_response again on its error path with a status built from client data,
    # swallows the exception the server raises, and the response is sent anyway: the refused text must not reach the wire
    s = RecSock()
    resp = wsgi.Response(Req(), s, SimpleNamespace(is_ssl=False, sendfile=None))
    resp.start_response("200 OK", [("X-A", "1")])
    refused = False
    try:
        resp.start_response("500 " + tail, [("X-B", "2")], (ValueError, ValueError("x"), None))
    except REFUSED:
        refused = True
    if refused:
        # nothing of the refused call may survive: the head that goes out is the first call's, byte for byte
        resp.send_headers()
        return len(s.out) == 1 and judge_head(s.out[0], resp, "200 OK")
    return judge_pieces(resp, "500 " + tail, [tail])


WIRE = [("200 OK", [("X-A", "b")]), ("404 Not Found", [("X-A", " b\t"), ("Set-Cookie", "a=b"), ("Upgrade", "websocket")]),
        ("200 \xe9t\xe9", [("X-\x41", "\xfc")]), ("500 x", []), ("200 OK", [("Connection", "upgrade"), ("Upgrade", "websocket")])]


def wire(i: int) -> bool:
    """
    pre: 0 <= i < len(WIRE)
    post: __return__
    """
    status, hdrs = WIRE[pick(i, 0, len(WIRE) - 1)]
    s, resp, refused = emit(status, hdrs)
    if refused or len(s.out) != 1:
        return False
    conn = "upgrade" if resp.upgrade else ("close" if resp.should_close() else "keep-alive")
    return s.out[0] == expected_head(status, resp.headers, chunked=resp.chunked, connection=conn)


def status_tail_twin(tail: str) -> bool:
    """
    pre: len(tail) == CASE["n"]
    pre: all(32 <= ord(c) < 127 for c in tail)
    post: __return__
    """
    s, resp, refused = emit("200 " + tail, [("X-A", "b")], send=False)
    return refused


def header_name_twin(name: str) -> bool:
    """
    pre: len(name) == CASE["n"]
    post: __return__
    """
    s, resp, refused = emit("200 OK", [(name, "v")], send=False)
    return refused or len(resp.headers) != 1


def header_value_twin(value: str) -> bool:
    """
    pre: len(value) == CASE["n"]
    post: __return__
    """
    s, resp, refused = emit("200 OK", [(CASE["name"], value)], send=False)
    return refused or len(resp.headers) != 1


OBLIGATIONS = [
    Ob("C09.status_tail", "status_tail", cases={"quick": [{"n": n} for n in (0, 1, 2)], "thorough": [{"n": n} for n in (0, 1, 2, 3)]},
       timeout=900, bound="status = '200 ' + 0..2 (thorough 3) arbitrary unicode characters"),
    Ob("C09.refused_then_sent", "refused_then_sent", cases={"quick": [{"n": n} for n in (1, 2)], "thorough": [{"n": n} for n in (1, 2, 3)]},
       timeout=900, bound="second start_response(exc_info) with status '500 ' + 1..2 (thorough 3) arbitrary characters, exception "
                          "swallowed, head sent afterwards"),
    Ob("C09.status_tail.twin", "status_tail_twin", cases=[{"n": 2}], expect="refute", timeout=120),
    Ob("C09.status_code", "status_code", cases={"quick": [{"n": 3}], "thorough": [{"n": 3}, {"n": 4}]}, timeout={"quick": 1800, "thorough": 3600},
       bound="status = 3 (thorough 4) characters from {2 0 CR LF NUL SP NBSP x U+0100 HTAB} followed by ' OK', nothing, or a single space, "
             "judged on the wire"),
    Ob("C09.header_name", "header_name", cases=[{"n": n} for n in (0, 1, 2)],
       timeout=1200, bound="one header whose name is 0..2 arbitrary unicode characters (3 characters: ~7000 paths on one core, "
                           "measured not to finish in 20 min; longer names are covered at the gate by C09.lex_smt)"),
    Ob("C09.header_name.twin", "header_name_twin", cases=[{"n": 2}], expect="refute", timeout=120),
    Ob("C09.header_value", "header_value",
       cases={"quick": [{"name": nm, "n": n} for nm in ("X-A", "Content-Type") for n in (1, 2)] + [{"name": "Upgrade", "n": 1}],
              "thorough": [{"name": nm, "n": n} for nm in ("X-A", "Content-Type", "Upgrade", "Connection") for n in (1, 2, 3)]},
       timeout=1200, bound="header value of 1..2 (thorough 3) arbitrary unicode characters under a fixed name"),
    Ob("C09.header_value.twin", "header_value_twin", cases=[{"name": "X-A", "n": 2}], expect="refute", timeout=120),
    Ob("C09.hop", "hop_case", cases=[{"name": nm} for nm in ("te", "date", "server", "trailers", "keep-alive", "connection",
                                                            "transfer-encoding", "proxy-authenticate", "proxy-authorization")],
       timeout=600, bound="every hop-by-hop name with all 16 case patterns of its first four letters x 4 styles for the rest, value 'x' + <=1 arbitrary character"),
    Ob("C09.upgrade", "upgrade_case", timeout=300,
       bound="Upgrade header in 3 spellings x 7 values x status 200 / 101 / 426 / 400: never forwarded unless it is the websocket handshake"),
    Ob("C09.twice", "twice_case", timeout=300,
       bound="7 invalid header names, each offered three times in one process and twice to one Response (plain / exc_info): refused every "
             "time; executed untraced after the solver picked the inputs"),
    Ob("C09.wire", "wire", timeout=300, bound="5 concrete heads incl. latin-1 characters, padded values and the websocket upgrade pair: "
                                              "bytes on the wire = the pieces joined and latin-1 encoded"),
    Ob("C09.second_call", "second_call", timeout=300,
       bound="second start_response(exc_info) before/after the head was sent; 0..2 headers in each call incl. Content-Length"),
    Ob("C09.lex_smt", "resp_lex", smt="resp_lex_smt", timeout=300,
       bound="strings of ANY length over code points 0..0x2FFFF: what the regex gates of start_response / process_headers (pattern and "
             "applied method read from the source) let through lies inside RFC 9110 token (names) / HTAB SP VCHAR obs-text (values, "
             "status after '200 '); z3 regex inclusion, models replayed through the real start_response + send_headers"),
]

"""C09 - application-supplied status and headers cannot split or forge a response.

Kernels: Response.start_response / process_headers / default_headers / send_headers (+ util.is_hoppish).
The response head is judged on the wire (bytes handed to the recording socket): every CR is followed by LF, every
LF preceded by CR, the number of CRLFs equals the server's own lines + one per accepted application header + the
blank line, no NUL; a refused input sends zero bytes; hop-by-hop headers are absent.
"""
from types import SimpleNamespace
from typing import List

from engine.harness_api import Ob, setup, kf_ok, pick
setup(shim=False)

from gunicorn.http import wsgi  # noqa: E402
from gunicorn.http.errors import InvalidHeader, InvalidHeaderName  # noqa: E402
from gunicorn import util  # noqa: E402
from engine.stubs.recsock import RecSock  # noqa: E402
from engine.stubs import workers as W  # noqa: E402

W.install_clock()

PROPERTY = "C09"
CASE = {}
KERNELS = ["gunicorn.http.wsgi:Response.start_response", "gunicorn.http.wsgi:Response.process_headers",
           "gunicorn.http.wsgi:Response.default_headers", "gunicorn.http.wsgi:Response.send_headers",
           "gunicorn.http.wsgi:Response.is_chunked", "gunicorn.http.wsgi:Response.should_close",
           "gunicorn.util:is_hoppish", "gunicorn.util:to_bytestring"]
STUBS = ["socket -> RecSock", "util.http_date -> constant", "request -> record (version 1.1, GET, keep-alive)"]
ASSUMPTIONS = ["status = 3 digits + SP + symbolic tail (so that the status code parses); one field symbolic at a time "
               "(status tail, header name, header value), the others concrete"]
OUTSIDE = ["fields longer than the bound", "Content-Length values that int() accepts but HTTP does not (e.g. '+5')"]

HOP = ("connection", "keep-alive", "proxy-authenticate", "proxy-authorization", "te", "trailers", "transfer-encoding",
       "upgrade", "server", "date")


class Req:
    version = (1, 1)
    method = "GET"

    def should_close(self):
        return False


REFUSED = (InvalidHeader, InvalidHeaderName, TypeError, ValueError, UnicodeEncodeError, AssertionError)


def judge_head(head, resp):
    """structure of the emitted head; `head` may be symbolic bytes"""
    n = len(head)
    crlf = 0
    for i in range(n):
        c = head[i]
        if c == 0:
            return False
        if c == 13:
            if i + 1 >= n or head[i + 1] != 10:
                return False
            crlf += 1
        elif c == 10:
            if i == 0 or head[i - 1] != 13:
                return False
    want = 1 + 3 + (1 if resp.chunked else 0) + len(resp.headers) + 1
    if crlf != want:
        return False
    return n >= 4 and head[n - 4] == 13 and head[n - 2] == 13      # ends with CRLF CRLF


def emit(status, headers, second=None):
    s = RecSock()
    resp = wsgi.Response(Req(), s, SimpleNamespace(is_ssl=False, sendfile=None))
    try:
        resp.start_response(status, headers)
        if second is not None:
            resp.start_response(second[0], second[1], (ValueError, ValueError("x"), None))
        resp.send_headers()
    except REFUSED:
        return s, resp, True
    return s, resp, False


def status_tail(tail: str) -> bool:
    """
    pre: len(tail) == CASE["n"]
    pre: kf_ok("C09.status_tail", tail=tail)
    post: __return__
    """
    s, resp, refused = emit("200 " + tail, [("X-A", "b")])
    if refused:
        return len(s.out) == 0
    if len(s.out) != 1:
        return False
    return judge_head(s.out[0], resp)


def header_name(name: str) -> bool:
    """
    pre: len(name) == CASE["n"]
    post: __return__
    """
    s, resp, refused = emit("200 OK", [(name, "v")])
    if refused:
        return len(s.out) == 0
    if len(s.out) != 1 or not judge_head(s.out[0], resp):
        return False
    # accepted: an RFC 9110 token, and not a hop-by-hop name
    for ch in name:
        c = ord(ch)
        if not ((48 <= c <= 57) or (65 <= c <= 90) or (97 <= c <= 122) or c in (
                33, 35, 36, 37, 38, 39, 42, 43, 45, 46, 94, 95, 96, 124, 126)):
            return False
    if len(name) == 0:
        return False
    low = name.lower()
    if low in HOP:
        return len(resp.headers) == 0
    return len(resp.headers) == 1


def header_value(value: str) -> bool:
    """
    pre: len(value) == CASE["n"]
    post: __return__
    """
    s, resp, refused = emit("200 OK", [(CASE["name"], value)])
    if refused:
        return len(s.out) == 0
    if len(s.out) != 1 or not judge_head(s.out[0], resp):
        return False
    low = CASE["name"].lower()
    if low in HOP and low != "upgrade":
        return len(resp.headers) == 0          # never forwarded
    return True


def hop_case(mask: int, value: str) -> bool:
    """
    pre: 0 <= mask < 2 ** len(CASE["name"])
    pre: len(value) <= 1
    post: __return__
    """
    base = CASE["name"]
    mask = pick(mask, 0, 2 ** len(base) - 1)
    name = "".join(ch.upper() if (mask >> i) & 1 else ch for i, ch in enumerate(base))
    s, resp, refused = emit("200 OK", [(name, "x" + value), ("X-Keep", "1")])
    if refused:
        return len(s.out) == 0
    if len(s.out) != 1 or not judge_head(s.out[0], resp):
        return False
    return [k for k, _ in resp.headers] == ["X-Keep"]


def second_call(sent_first: bool, n1: int, n2: int) -> bool:
    """
    pre: 0 <= n1 <= 2 and 0 <= n2 <= 2
    pre: kf_ok("C09.second_call", sent_first=sent_first, n1=n1, n2=n2)
    post: __return__
    """
    n1, n2 = pick(n1, 0, 2), pick(n2, 0, 2)
    first = [("X-A", "1"), ("Content-Length", "5")][:n1]
    second = [("X-B", "2"), ("Content-Length", "3")][:n2]
    s = RecSock()
    resp = wsgi.Response(Req(), s, SimpleNamespace(is_ssl=False, sendfile=None))
    resp.start_response("200 OK", first)
    if sent_first:
        resp.send_headers()
    try:
        resp.start_response("500 Oops", second, (ValueError, ValueError("boom"), None))
    except ValueError:
        # headers already sent: the exception must be re-raised and nothing more written
        return sent_first and len(s.out) == 1
    if sent_first:
        return False
    resp.send_headers()
    if len(s.out) != 1 or not judge_head(s.out[0], resp):
        return False
    # PEP 3333: the second call REPLACES the stored headers: exactly the second call's headers are on the wire
    return [k for k, _ in resp.headers] == [k for k, _ in second] and s.out[0].startswith(b"HTTP/1.1 500 Oops\r\n")


def refused_then_sent(tail: str) -> bool:
    """
    pre: len(tail) == CASE["n"]
    post: __return__
    """
    # an application (or middleware) calls start_response again on its error path with a status built from client data,
    # swallows the exception the server raises, and the response is sent anyway: the refused text must not reach the wire
    s = RecSock()
    resp = wsgi.Response(Req(), s, SimpleNamespace(is_ssl=False, sendfile=None))
    resp.start_response("200 OK", [("X-A", "1")])
    refused = False
    try:
        resp.start_response("500 " + tail, [("X-B", "2")], (ValueError, ValueError("x"), None))
    except REFUSED:
        refused = True
    resp.send_headers()
    if len(s.out) != 1 or not judge_head(s.out[0], resp):
        return False
    if refused:
        return s.out[0][:17] == b"HTTP/1.1 200 OK\r\n"
    return True


def status_tail_twin(tail: str) -> bool:
    """
    pre: len(tail) == CASE["n"]
    post: __return__
    """
    s, resp, refused = emit("200 " + tail, [("X-A", "b")])
    return refused or len(s.out) != 1


def header_name_twin(name: str) -> bool:
    """
    pre: len(name) == CASE["n"]
    post: __return__
    """
    s, resp, refused = emit("200 OK", [(name, "v")])
    return refused or len(resp.headers) != 1


def header_value_twin(value: str) -> bool:
    """
    pre: len(value) == CASE["n"]
    post: __return__
    """
    s, resp, refused = emit("200 OK", [(CASE["name"], value)])
    return refused or len(resp.headers) != 1


OBLIGATIONS = [
    Ob("C09.status_tail", "status_tail", cases={"quick": [{"n": n} for n in (0, 1, 2)], "thorough": [{"n": n} for n in (0, 1, 2, 3)]},
       timeout=900, bound="status = '200 ' + 0..2 (thorough 3) arbitrary unicode characters"),
    Ob("C09.refused_then_sent", "refused_then_sent", cases={"quick": [{"n": n} for n in (1, 2)], "thorough": [{"n": n} for n in (1, 2, 3)]},
       timeout=900, bound="second start_response(exc_info) with status '500 ' + 1..2 (thorough 3) arbitrary characters, exception "
                          "swallowed, head sent afterwards"),
    Ob("C09.status_tail.twin", "status_tail_twin", cases=[{"n": 2}], expect="refute", timeout=120),
    Ob("C09.header_name", "header_name", cases={"quick": [{"n": n} for n in (0, 1, 2)], "thorough": [{"n": n} for n in (0, 1, 2, 3)]},
       timeout=1200, bound="one header whose name is 0..2 (thorough 3) arbitrary unicode characters"),
    Ob("C09.header_name.twin", "header_name_twin", cases=[{"n": 2}], expect="refute", timeout=120),
    Ob("C09.header_value", "header_value",
       cases={"quick": [{"name": nm, "n": n} for nm in ("X-A", "Content-Type") for n in (1, 2)] + [{"name": "Upgrade", "n": 1}],
              "thorough": [{"name": nm, "n": n} for nm in ("X-A", "Content-Type", "Upgrade", "Connection") for n in (1, 2, 3)]},
       timeout=1200, bound="header value of 1..2 (thorough 3) arbitrary unicode characters under a fixed name"),
    Ob("C09.header_value.twin", "header_value_twin", cases=[{"name": "X-A", "n": 2}], expect="refute", timeout=120),
    Ob("C09.hop", "hop_case", cases=[{"name": nm} for nm in ("te", "date", "server", "trailers", "keep-alive", "connection",
                                                            "transfer-encoding", "proxy-authenticate", "proxy-authorization")],
       timeout=600, bound="every hop-by-hop name in every upper/lower-case spelling, value 'x' + <=1 arbitrary character"),
    Ob("C09.second_call", "second_call", timeout=300,
       bound="second start_response(exc_info) before/after the head was sent; 0..2 headers in each call incl. Content-Length"),
]

import io,sys
from gunicorn.http.body import ChunkedReader
from gunicorn.http.unreader import IterUnreader
from gunicorn.http.errors import InvalidChunkSize, NoMoreData
class R: trailers=[]; 
def run(stream, cuts):
    parts=[]; i=0
    for c in cuts:
        parts.append(stream[i:c]); i=c
    parts.append(stream[i:])
    parts=[p for p in parts if p]
    u=IterUnreader(iter(parts))
    req=type('Req',(),{'limit_request_fields':100,'limit_request_field_size':8190,'max_buffer_headers':100*8192+4,'parse_headers':lambda self,d,from_trailer=False:[], 'trailers':[]})()
    cr=ChunkedReader.__new__(ChunkedReader); cr.req=req
    try:
        return ('ok',)+tuple(cr.parse_chunk_size(u))
    except (InvalidChunkSize,) as e: return ('ICS',)
    except NoMoreData: return ('NMD',)
bad=0
for L in (8180, 8186,8187,8188,8189,8190,8191,8192,8193,9000):
    line=b"5;"+b"a"*(L-2)+b"\r\n"+b"hello\r\n"
    res=set()
    for cuts in ([], [8000],[8192], list(range(1,len(line))), [L],[L+1],[L-1], list(range(4096,len(line),4096)), [8190],[8191],[8189]):
        cuts=[c for c in cuts if c< len(line)]
        # respect reads of at most 8192
        ok=True; prev=0
        for c in cuts+[len(line)]:
            if c-prev>8192: ok=False
            prev=c
        if not ok: continue
        res.add(run(line,cuts)[0])
    print(L,res)
    if len(res)!=1: bad=1
sys.exit(bad)

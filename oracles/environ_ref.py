"""Reference mapping request -> CGI/PEP 3333 variables, independent of gunicorn and of urllib."""


def hexval(c):
    if 48 <= c <= 57:
        return c - 48
    if 97 <= c <= 102:
        return c - 87
    if 65 <= c <= 70:
        return c - 55
    return -1


def percent_decode_latin1(s):
    """str whose characters are bytes (latin-1) -> str with %XX triplets replaced by chr(0xXX); everything else,
    including raw non-ASCII characters and malformed escapes, is kept as it is"""
    out = []
    n = len(s)
    i = 0
    while i < n:
        ch = s[i]
        if ch == "%" and i + 2 < n + 0 and i + 2 <= n - 1:
            h1 = hexval(ord(s[i + 1]))
            h2 = hexval(ord(s[i + 2]))
            if h1 >= 0 and h2 >= 0:
                out.append(chr(h1 * 16 + h2))
                i += 3
                continue
        out.append(ch)
        i += 1
    return "".join(out)


def split_target(t):
    """request-target (str) -> (path, query) for origin-form, absolute-form, asterisk-form.
    '#' is not part of a request-target (clients never send fragments): callers do not pass it."""
    if t == "*":
        return "*", ""
    rest = t
    if not t.startswith("/"):
        # absolute-form: scheme ":" "//" authority path-abempty [ "?" query ]
        i = t.find("://")
        if i > 0:
            j = i + 3
            while j < len(t) and t[j] not in "/?":
                j += 1
            rest = t[j:]
    q = rest.find("?")
    if q < 0:
        return rest, ""
    return rest[:q], rest[q + 1:]

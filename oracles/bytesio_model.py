"""File-object semantics of a binary stream over a byte string (what io.BytesIO does), written with
index loops so that it can also run on symbolic bytes.  selfcheck() compares it with io.BytesIO."""


class FileModel:
    def __init__(self, data):
        self.d = data
        self.p = 0

    def read(self, n=None):
        if n is None or n < 0:
            r = self.d[self.p:]
        else:
            r = self.d[self.p:self.p + n]
        self.p += len(r)
        return r

    def readline(self, n=None):
        end = len(self.d)
        if n is not None and n >= 0 and self.p + n < end:
            end = self.p + n
        i = self.p
        while i < end:
            if self.d[i] == 10:
                i += 1
                break
            i += 1
        r = self.d[self.p:i]
        self.p = i
        return r

    def readlines(self, hint=None):
        # PEP 3333: the hint may be ignored -> all remaining lines
        out = []
        while True:
            ln = self.readline()
            if not len(ln):
                return out
            out.append(ln)

    def next(self):
        ln = self.readline()
        if not len(ln):
            return None           # StopIteration
        return ln


def selfcheck():
    import io
    import itertools
    n = 0
    for L in range(0, 5):
        for t in itertools.product(b"a\n", repeat=L):
            d = bytes(t)
            for prog in itertools.product([("read", None), ("read", -1), ("read", 0), ("read", 2), ("readline", None),
                                           ("readline", 0), ("readline", 1), ("readline", 3), ("next", None)], repeat=2):
                a, b = FileModel(d), io.BytesIO(d)
                for op, s in prog:
                    if op == "next":
                        x = a.next()
                        y = next(b, None)
                    else:
                        x = getattr(a, op)(s)
                        y = getattr(b, op)(s) if s is not None else getattr(b, op)()
                    n += 1
                    if x != y:
                        return n, (d, prog, x, y)
                if a.readlines() != b.readlines():
                    return n, (d, prog, "readlines")
    return n, None


if __name__ == "__main__":
    import sys
    n, bad = selfcheck()
    print("bytesio_model selfcheck: %d comparisons, mismatch=%r" % (n, bad))
    sys.exit(3 if bad else 0)

"""Strict RFC 9112 / RFC 9110 reference readings, independent of gunicorn (no gunicorn import).

Written with index loops and integer comparisons only, so that CrossHair can execute them on
symbolic str/bytes without realising them.  Direction of use: *accepted by gunicorn => accepted by
the reference with the same meaning*.  Where the RFC rejects for a reason the property text does not
list, the reference answers LENIENT (= either behaviour is fine) and says so.
"""

TCHAR = b"!#$%&'*+-.^_`|~0123456789abcdefghijklmnopqrstuvwxyzABCDEFGHIJKLMNOPQRSTUVWXYZ"
KNOWN_CODINGS = ("chunked", "identity", "compress", "deflate", "gzip")

REJECT = ("reject",)
LENIENT = ("lenient",)


def is_tchar(c):
    # c: int codepoint
    return (48 <= c <= 57) or (65 <= c <= 90) or (97 <= c <= 122) or c in (
        33, 35, 36, 37, 38, 39, 42, 43, 45, 46, 94, 95, 96, 124, 126)


def is_digit(c):
    return 48 <= c <= 57


def hexval(c):
    if 48 <= c <= 57:
        return c - 48
    if 97 <= c <= 102:
        return c - 87
    if 65 <= c <= 70:
        return c - 55
    return -1


def _lower(c):
    return c + 32 if 65 <= c <= 90 else c


def ieq_word(pts, lo, hi, word):
    """codepoints pts[lo:hi] equal `word` ASCII-case-insensitively"""
    if hi - lo != len(word):
        return False
    for i in range(len(word)):
        if _lower(pts[lo + i]) != ord(word[i]):
            return False
    return True


def te_codings(value):
    """Transfer-Encoding field value (str, as delivered after OWS trimming) -> list of coding names,
    or None if any list element is not one of the registered codings gunicorn knows (an unknown or
    non-token coding must be refused; parameters are not supported => also None)."""
    pts = [ord(ch) for ch in value]
    n = len(pts)
    out = []
    start = 0
    i = 0
    while i <= n:
        if i == n or pts[i] == 44:       # ','
            lo, hi = start, i
            while lo < hi and (pts[lo] == 32 or pts[lo] == 9):
                lo += 1
            while hi > lo and (pts[hi - 1] == 32 or pts[hi - 1] == 9):
                hi -= 1
            name = None
            for w in KNOWN_CODINGS:
                if ieq_word(pts, lo, hi, w):
                    name = w
                    break
            if name is None:
                return None
            out.append(name)
            start = i + 1
        i += 1
    return out


def content_length_value(value):
    """1*DIGIT -> int, else None"""
    if len(value) == 0:
        return None
    n = 0
    for ch in value:
        c = ord(ch)
        if not (48 <= c <= 57):
            return None
        n = n * 10 + (c - 48)
    return n


def framing(version, headers):
    """RFC 9112 section 6.3 for a request, over (NAME-UPPERCASED, value) pairs.
    -> REJECT | ("chunked",) | ("length", n) | ("none",) | LENIENT"""
    cl = None
    ncl = 0
    codings = []
    have_te = False
    for name, value in headers:
        if name == "CONTENT-LENGTH":
            ncl += 1
            cl = value
        elif name == "TRANSFER-ENCODING":
            have_te = True
            cs = te_codings(value)
            if cs is None:
                return REJECT            # unknown / non-token transfer coding
            codings = codings + cs
    if ncl > 1:
        return REJECT                    # repeated Content-Length
    clv = None
    if ncl == 1:
        clv = content_length_value(cl)
        if clv is None:
            return REJECT                # non-digit Content-Length
    nchunked = 0
    for c in codings:
        if c == "chunked":
            nchunked += 1
    if nchunked > 1:
        return REJECT                    # chunked repeated
    if nchunked == 1:
        if codings[len(codings) - 1] != "chunked":
            return REJECT                # chunked not last
        if version < (1, 1):
            return REJECT                # chunked on HTTP/1.0
        if ncl:
            return REJECT                # Content-Length together with chunked
        return ("chunked",)
    if have_te:
        # Transfer-Encoding without chunked: RFC 9112 6.3 says 400; the property text does not list
        # it and the repository's own suite pins "identity + Content-Length" as accepted.
        return LENIENT
    if ncl == 1:
        return ("length", clv)
    return ("none",)


def chunk_size_line(line):
    """chunk-size line without its CRLF (bytes): 1*HEXDIG [ BWS ";" chunk-ext ] -> size or None.
    The *content* of a chunk extension is not judged (the property does not list it)."""
    n = len(line)
    i = 0
    size = 0
    while i < n and hexval(line[i]) >= 0:
        size = size * 16 + hexval(line[i])
        i += 1
    if i == 0:
        return None
    if i == n:
        return size
    j = i
    while j < n and (line[j] == 32 or line[j] == 9):
        j += 1
    if j < n and line[j] == 59:          # ';' after optional BWS
        return size
    return None


def field_line(line):
    """field-line = field-name ":" OWS field-value OWS   (bytes, no CRLF inside)
    -> (name_end, value_lo, value_hi) or None.  Rejects: empty/non-token name, whitespace before the
    colon, NUL/CR/LF in the value, a line starting with SP/HTAB (obs-fold continuation)."""
    n = len(line)
    i = 0
    while i < n and is_tchar(line[i]):
        i += 1
    if i == 0 or i >= n or line[i] != 58:
        return None
    lo, hi = i + 1, n
    while lo < hi and (line[lo] == 32 or line[lo] == 9):
        lo += 1
    while hi > lo and (line[hi - 1] == 32 or line[hi - 1] == 9):
        hi -= 1
    for k in range(lo, hi):
        if line[k] == 0 or line[k] == 13 or line[k] == 10:
            return None
    return (i, lo, hi)


def http_version(field):
    """HTTP-version = "HTTP/" DIGIT "." DIGIT  (str) -> (major, minor) or None"""
    if len(field) != 8:
        return None
    pre = "HTTP/"
    for i in range(5):
        if field[i] != pre[i]:
            return None
    a, dot, b = ord(field[5]), field[6], ord(field[7])
    if dot != "." or not is_digit(a) or not is_digit(b):
        return None
    return (a - 48, b - 48)


def is_token(s):
    if len(s) == 0:
        return False
    for ch in s:
        if not is_tchar(ord(ch)):
            return False
    return True

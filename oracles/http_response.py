"""Strict reader for the bytes a server put on one connection (independent of gunicorn).
Runs on concrete bytes.  parse_stream(raw, head_request_flags) -> list of response dicts + verdict."""


class Bad(Exception):
    pass


TCHAR = set(b"!#$%&'*+-.^_`|~0123456789abcdefghijklmnopqrstuvwxyzABCDEFGHIJKLMNOPQRSTUVWXYZ")


def parse_head(raw, pos):
    end = raw.find(b"\r\n\r\n", pos)
    if end < 0:
        raise Bad("no end of head")
    lines = raw[pos:end].split(b"\r\n")
    sl = lines[0]
    if not (sl.startswith(b"HTTP/1.") and len(sl) >= 12 and sl[7:8] in (b"0", b"1") and sl[8:9] == b" "
            and sl[9:12].isdigit() and (len(sl) == 12 or sl[12:13] == b" ")):
        raise Bad("bad status line %r" % sl)
    code = int(sl[9:12])
    headers = []
    for ln in lines[1:]:
        i = ln.find(b":")
        if i <= 0 or any(c not in TCHAR for c in ln[:i]):
            raise Bad("bad header line %r" % ln)
        if any(c in (0, 10, 13) for c in ln):
            raise Bad("CTL in header line %r" % ln)
        headers.append((ln[:i].lower(), ln[i + 1:].strip(b" \t")))
    return {"version": sl[:8], "code": code, "reason": sl[13:], "headers": headers}, end + 4


def get(headers, name):
    return [v for (k, v) in headers if k == name]


def dechunk(raw, pos):
    """-> (payload, new_pos, n_last_chunks=1); raises Bad on any syntax error / truncation"""
    out = b""
    while True:
        j = raw.find(b"\r\n", pos)
        if j < 0:
            raise Bad("chunk-size line not terminated")
        line = raw[pos:j]
        if not line or any(c not in b"0123456789abcdefABCDEF" for c in line):
            raise Bad("bad chunk size %r" % line)
        n = int(line, 16)
        pos = j + 2
        if n == 0:
            if raw[pos:pos + 2] != b"\r\n":
                raise Bad("last-chunk not followed by CRLF (trailers unsupported)")
            return out, pos + 2
        if len(raw) < pos + n + 2:
            raise Bad("chunk data truncated")
        out += raw[pos:pos + n]
        pos += n
        if raw[pos:pos + 2] != b"\r\n":
            raise Bad("chunk data not followed by CRLF")
        pos += 2


def parse_one(raw, pos, head_request):
    """Parse one response starting at pos.  -> dict with body, framing, end offset, self_delimiting"""
    r, p = parse_head(raw, pos)
    h = r["headers"]
    te = get(h, b"transfer-encoding")
    cl = get(h, b"content-length")
    r["connection"] = [v.lower() for v in get(h, b"connection")]
    nobody = head_request or r["code"] in (204, 304) or r["code"] < 200
    if len(cl) > 1 or (cl and not cl[0].isdigit()):
        raise Bad("bad content-length %r" % cl)
    if te and cl:
        raise Bad("both Transfer-Encoding and Content-Length")
    if te:
        if te != [b"chunked"]:
            raise Bad("unexpected transfer-encoding %r" % te)
        if nobody:
            raise Bad("chunked on a bodiless response")
        body, p = dechunk(raw, p)
        r.update(framing="chunked", body=body, end=p, self_delimiting=True, complete=True)
    elif nobody:
        r.update(framing="none", body=b"", end=p, self_delimiting=True, complete=True)
    elif cl:
        n = int(cl[0])
        body = raw[p:p + n]
        r.update(framing="length", body=body, end=p + len(body), self_delimiting=True,
                 complete=len(body) == n, declared=n)
    else:
        r.update(framing="close", body=raw[p:], end=len(raw), self_delimiting=False, complete=True)
    return r


def parse_stream(raw, head_flags):
    """head_flags[i]: was request i a HEAD.  -> list of responses; raises Bad if bytes remain that are
    not a well-formed response, or more responses than requests."""
    out = []
    pos = 0
    i = 0
    while pos < len(raw):
        if i >= len(head_flags):
            raise Bad("bytes after the last expected response: %r" % raw[pos:pos + 40])
        r = parse_one(raw, pos, head_flags[i])
        out.append(r)
        pos = r["end"]
        i += 1
        if not r["self_delimiting"]:
            break
    return out
